#!/usr/bin/env python3
"""Generates /verif/MANIFEST.json from the table below (single place to maintain it)."""
import json, os, sys
HERE = os.path.dirname(os.path.dirname(os.path.abspath(__file__)))

NA = {
 "C01": "pure function from a value to bytes: no source, sink, fault, history or configuration in its statement; comparing encode(v) with a reference encoder over generated values is differential input generation, not simulation (DESIGN.md section 5)",
 "C04": "pure property of compact integers decided by exhaustive enumeration of values and byte strings (model checking), no seam involved; Compact subjects still take part in C03/C08/C14 under faults",
 "C05": "quantifies over type definitions (programs): deciding it means generating and compiling programs; the simulator runs a fixed catalogue of derived types only",
 "C13": "arithmetic bound max_encoded_len() >= encode().len() on a pure function; no schedule, fault, I/O or history dimension",
 "C16": "pure byte equality between two encodings of the same logical value; no seam involved",
 "C17": "compile-time acceptance/rejection of programs; nothing executes under a simulator",
}

# id -> (level, text, note, technique, design_ref, built)
CHECKS = {
 "C03": ("exploration",
         "Seeded search + a small complete enumeration: reference encodings of generated values hit by 1..3 storage faults (bit flip, byte set, truncate, extend, duplicate, splice; 70% aimed at tags, counts, compacts, UTF-8 bodies, variant indices, nanos, non-zero fields, bit lengths, padding via the reference encoder's annotation map), valid(+suffix) and random strings, delivered through a drawn benign source stack; the real decoder's accept/reject, value and consumed length are compared with an independent reference SCALE decoder; overflow checks and debug assertions on; process survival (abort, stack overflow, allocation cap, hang) observed by the supervising driver; every byte string of length <= 2 (3 for small-alphabet subjects in thorough) for every subject is enumerated completely; bit sequences are decoded from an endless source at bit counts around the 2^29-1 cap; large in-place shapes (Box/Rc/Arc of arrays of 300 KB arrays, boxed transparent newtypes) are decoded on a 256 KiB stack. Sampling beyond that.",
         "Trusted: the reference model (model.rs) as the statement of the SCALE language, incl. its documented laxities (padding bits ignored, duplicate map keys last-wins); recursive types decoded on a 1 GiB stack with inputs <= 64 KiB (unlimited-depth stack exhaustion is C11's subject). Collections of zero-sized-encoding elements with hostile counts are a KNOWN-FINDING family (memory exhaustion), executed in supervised child processes.",
         "deterministic simulation: storage-fault injection on the wire (seeded, annotation-aimed) + differential oracle against a reference decoder + supervised workers for crash/abort/hang detection; complete enumeration of short strings",
         "DESIGN.md section 4 C03", True),
 "C07": ("exploration",
         "Seeded search: every generated value is encoded through all sinks (encode, encode_to Vec with existing content, custom Output with/without push_byte, &mut dyn Output, io::Write with short writes and EINTR under three schedules, Cursor, small BufWriter, using_encoded, KeyedVec::to_keyed_vec, Joiner::and) and encoded_size; all must agree byte for byte and the agreed encoding must decode back to the value; values in #[codec(skip)] variants are exercised by a typed helper. Bulk subjects (12 primitive element types x Vec/VecDeque/array) are compared with element-wise twin types for encoding and for decoding of the full and a truncated encoding through the same benign source (values, consumed bytes, Ok/Err).",
         "Trusted: SimWrite never returns Ok(0) or a hard error (the library documents sinks as infallible). Twin types are derived newtypes (TYPE_INFO = Unknown).",
         "deterministic simulation: simulated sinks with short-write/EINTR injection, relational oracle across sinks and bulk-vs-elementwise twins",
         "DESIGN.md section 4 C07", True),
 "C08": ("exploration",
         "Seeded search: one byte string (valid, damaged, truncated, random) per case decoded through the plain slice and 8..50 other source stacks (IoReader<Cursor>, IoReader over a short-read/EINTR reader under several schedules incl. 1 byte per call, custom Input with known/unknown length and own/defaulted read_byte, decode_from_bytes incl. the zero-copy path, all 39 non-trivial orders of CountedInput / depth-limit(max) / mem-limit(max) up to depth 3); same Ok/Err everywhere, same value and same consumed bytes on Ok; wrapper observables coherent (count == consumed, used_mem equal across stacks).",
         "Trusted: the erasing DynInput adapter forwards all seven Input methods (incl. the hidden bytes hook).",
         "deterministic simulation: simulated Input/Read endpoints with benign I/O nondeterminism, run-time composed real wrapper stacks, relational oracle against the slice baseline",
         "DESIGN.md section 4 C08", True),
 "C14": ("fault_enumeration",
         "EOF is injected at EVERY strict cut point of every generated encoding up to 512 bytes (annotation-boundary +-16 and spread cuts for longer ones, incl. around multiples of 16 KiB), each delivered by slice, by a short-read reader and by an unknown-length input: decoding must fail. Streams of 2..20 frames of mixed subjects are decoded value by value from one benign source (or frame by frame through decode_from_bytes), optionally cut: frames before the cut are recovered at the right offsets, the cut frame fails. On arbitrary byte strings decode_all / decode_all_with_depth_limit(L) are checked equivalent to decode / decode_with_depth_limit(L) + nothing left, L in {0..4, u32::MAX}.",
         "Complete over cut points for encodings <= 512 bytes of the generated values; values and streams are sampled.",
         "deterministic simulation: EOF fault enumeration over every cut point (torn write / closed connection) and stream framing over simulated sources",
         "DESIGN.md section 4 C14", True),
 "C18": ("exploration",
         "Seeded search: T::skip and T::decode are run on twin copies of the same simulated source (same chunk/EINTR schedule, same wrapper stack) over valid, damaged, truncated and random byte strings for all subjects: same Ok/Err, same bytes taken on Ok. DecodeLength::len is compared with the honest value length and, on damaged blobs, with the validity of the Compact<u32> prefix under the reference model.",
         "Trusted: reference compact decoder for the prefix validity.",
         "deterministic simulation: twin-source differential run of skip vs decode under identical seam schedules",
         "DESIGN.md section 4 C18", True),
 "C19": ("fault_enumeration",
         "CountedInput is placed at every position of drawn wrapper stacks over simulated bases with injected error faults (read error at call k with or without partial consumption, EOF at byte k, I/O error at call k); a recording tap directly above the base notes what was really delivered; after every decode, successful or failed (a third of the cases: two decodes through the same counter), count() must equal the delivered bytes, for a plain slice also the slice's consumed length, and after a fault-free success the bytes taken from the base.",
         "Fault positions are sampled (k drawn), not enumerated completely; saturation at 2^64 is unreachable by execution and left to the existing synthetic unit test (stated gap).",
         "deterministic simulation: error-fault injection at the Input/Read seam with a recording tap as ground truth for delivered bytes",
         "DESIGN.md section 4 C19", True),
 "C06": ("exploration",
         "History simulation (no fault dimension; said so): a container (VecDeque over 7 element types, Vec, String, BTreeMap+BTreeSet, LinkedList, BitVec over u8/u16/u32/u64 x Lsb0/Msb0) is driven through 1..60 seeded operations mirrored on a naive model; after EVERY operation encode(), encode_to(custom Output), using_encoded and encoded_size must equal those of the same logical content rebuilt in the simplest way (exact-capacity Vec, from_iter of the sorted model, bit vector pushed from offset 0), twice in a row; holders (&T, &&T, &mut T, Box, Rc with extra refs, Arc with a weak ref, Cow borrowed/owned) and, for bit sequences, every sub-slice offset 0..=70 x 14 lengths as BitSlice / to_bitvec / from_bitslice / BitBox are compared at the end; sequences whose elements are holders, BitBox obtained by move / after repeat+truncate; probes count wrapped ring-buffer states, short wrapped runs, spare-capacity states and owned bit vectors with a head offset. A second scenario (reencode) decodes valid and damaged byte strings and requires the decoded value to encode like the same logical value rebuilt from scratch.",
         "Relational oracle inside the library (same encoder on both sides): a symmetric wire-format change is invisible here (C03/C15 start from the independent model). BinaryHeap excluded (iteration order legitimately depends on history).",
         "deterministic simulation: seeded operation histories against a reference model (op-by-op lock-step), invariant checked after every step",
         "DESIGN.md section 4 C06", True),
 "C09": ("fault_enumeration",
         "Count tampering is enumerated: every count-prefix position of 3 (quick) / 12 (thorough) honest values of every subject that contains a sequence/map/set/list/heap/deque/string/bit-sequence/byte-buffer x 10 claimed counts up to 2^32-1 x 6 payload sizes up to 64 KiB x 4 sources (slice, unknown-length Input, IoReader over a short-read reader, shared Bytes buffer); a global-allocator accounting window around each decode call records the peak of requested live bytes; oracles: peak must not grow with the claimed count (N >= 2^20), a claim the input cannot back must not cost more than the largest claims do, peak <= 64*input_len + (depth+1)*1 MiB + fixed(T), no allocation-cap abort (supervisor). Plus 400k/60M seeded damaged/random strings under the same accounting.",
         "Bound constants are deliberately generous (1 MiB per level instead of the 16 KiB the code uses) so that retuning MAX_PREALLOCATION does not alarm; honest encodings calibrate the bound (a failure there is a harness error). Collections whose elements encode to zero bytes but allocate are KNOWN-FINDINGs (one supervised case each).",
         "deterministic simulation: count-tamper fault enumeration on the wire + allocator seam (accounting global allocator with hard cap) + supervised workers",
         "DESIGN.md section 4 C09", True),
 "C10": ("fault_enumeration",
         "For ~100 container shapes around instrumented element types (heap-holding Tr, fallible zero-sized Zf, droppable zero-sized Zd; GenericArray; three-field transparent structs) (arrays, Box/Rc/Arc, Vec/VecDeque/BinaryHeap/LinkedList/BTreeSet/BTreeMap, Option/Result/tuples, derived struct/enum, four repr(transparent) shapes incl. multi-field with a fallible zero-sized field, two-deep nestings) x N in {0,1,2,3,8,40} (and 1100/2100 to cross the 16 KiB chunk window) x 3 bases, EVERY fault position of EVERY kind is enumerated after a dry run counted the calls: element decoder Err / panic at each element, malformed zero-sized field, truncation at each byte, read error at each read call (with/without partial consumption), I/O error and panic in each Read::read call, descend_ref / on_before_alloc_mem error at each call, panic inside the input at each call, binding depth and mem limits, also under non-binding wrapper layers. Oracles: construction/drop ledger (constructed == dropped, nothing twice, nothing alive after a failed call, everything alive after success) and allocator (net bytes requested during call + drop == 0).",
         "Big instances (N > 100) sample positions (every 61st, around chunk multiples, ends). The thorough command additionally interprets the scenario (instances with N <= 8, every 19th case) under Miri (Stacked Borrows, leaks, invalid assume_init); the quick command does not.",
         "deterministic simulation: exhaustive fault-position enumeration per case at the element-decoder, Input and wrapper seams, with ledger + allocator oracles",
         "DESIGN.md section 4 C10", True),
 "C11": ("fault_enumeration",
         "Every limit L in 0..=D_hi+2 is enumerated for seeded values (wide-but-shallow and up to 14 levels deep, honest and damaged encodings) of every subject with heap containers, through the depth wrapper over a drawn source stack (optionally with a binding memory tracker underneath), at limits beyond i32::MAX, through decode_with_depth_limit on the slice and through decode_all_with_depth_limit: result(L) in {unlimited result, Err}, monotone in L, equal for L >= D_hi (every heap container on the deepest path), Err for L < D_lo (containers recursed through), consume-all rejects trailing bytes. Stack safety: Tree/Chain/Vec<Tree> inputs nested 10^3..10^6 levels (boxes, vectors, maps, lists, shared pointers, mixed) decoded with limits {0,1,16,100,256} on a 1 MiB stack through three sources must return Err and the process must survive.",
         "Between D_lo and D_hi only transparency and monotonicity are asserted, so that a refactor that stops descending for leaf containers does not alarm.",
         "deterministic simulation: limit enumeration = fault enumeration at the descend_ref seam; small-stack thread + supervisor for stack exhaustion",
         "DESIGN.md section 4 C11", True),
 "C12": ("fault_enumeration",
         "For every DecodeWithMemTracking subject and seeded byte strings: tracked usage U and unlimited result R first, then EVERY limit L in 0..=U+1 (U <= 600 quick / 4096 thorough; boundary limits otherwise) through decode_with_mem_limit and through MemTrackingInput layered alone, inside/outside a depth-limit wrapper and inside/outside a CountedInput over a drawn source: result(L) in {R, Err}; L > U => equal to R; U > 0 and L <= U => Err; U == 0 for subjects without heap containers; U >= bytes of decoded data the value holds on the heap (computed from the real decoded value; half for tree maps/sets); U identical across sources.",
         "heap_payload is computed by harness code from the decoded value (Modelled::heap_payload).",
         "deterministic simulation: limit enumeration = fault enumeration at the on_before_alloc_mem seam, over composed real wrapper stacks",
         "DESIGN.md section 4 C12", True),
 "C15": ("exploration",
         "Seeded histories of 1..12 append_or_new calls on a stored blob mirrored by a reference model (count + deterministic items; expected blob = compact(count) ++ reference encodings): eight item types incl. zero-sized ones with and without a wire encoding, Vec and VecDeque targets, five item forms, starts on/around 63|64, 2^14 and (unit items) 2^30, batches that reach / cross the next prefix-width boundary, twelve dedicated histories around 2^32 (exactly u32::MAX, one beyond, batch lengths >= 2^32), blobs with damaged count prefixes; Err exactly when the total exceeds u32::MAX or the prefix is not a valid Compact<u32>.",
         "Counts above ~7*10^4 only for zero-sized items. Found and repaired on this tree: items_to_append truncated to u32 (fix: commit, KNOWN_FINDINGS fixed: line).",
         "deterministic simulation: seeded operation histories on stored state against a reference model, storage faults on the count prefix",
         "DESIGN.md section 4 C15", True),
 "C20": ("exploration",
         "A probe crate is built once per feature configuration of the codec (std+chain-error / no default features / no_std+chain-error x optional features none|all in quick, plus each single and each all-but-one in thorough = 6 / 36 builds) against /repo's working tree; every build runs the same seeded corpus (values through encode() and a custom Output, decode of own / damaged / random bytes from a slice and a custom unknown-length Input) and prints per-family digests over (bytes, accept/reject, consumed, re-encoded value), error text excluded; digests must be identical in all configurations in which a family exists; further families: byte buffers (Bytes via decode_from_bytes vs Vec<u8>), append_or_new histories, maps/sets keyed by a type whose Ord ignores part of its encoding; the line of an item also records where the input stands after a failed decode.",
         "The probe binary always links std; io::Write sinks / IoReader exist only with std (covered by C07/C08).",
         "deterministic simulation over the configuration seam: one build per cargo feature set, same seeded corpus, digest comparison",
         "DESIGN.md section 4 C20", True),
 "C02": ("exploration",
         "Seeded search over wire simulations: streams of 1..6 encoded messages of ~380 concrete subject types (values biased to lengths around multiples of the 16 KiB decode window) + suffix, decoded in order from one simulated source stack (short reads, EINTR, unknown remaining length, defaulted read_byte, shared-buffer input, non-binding wrapper layers); oracle: decode Ok, value equals the model value, bytes taken from the base equal the bytes produced after every message, suffix untouched. Sampling, not proof.",
         "Trusted: the model<->type bridges (Modelled impls), SimRead/SimInput/SimWrite seam implementations, rustc. Type universe = fixed catalogue.",
         "deterministic simulation: seeded wire/stream simulation with benign I/O fault injection (short reads/writes, EINTR, unknown length), position oracle per message",
         "DESIGN.md section 4 C02", True),
}
PLANNED = ["C03","C06","C07","C08","C09","C10","C11","C12","C14","C15","C18","C19","C20"]

def main():
    checks = []
    for pid, (level, text, note, tech, ref, built) in sorted(CHECKS.items()):
        if not built: continue
        checks.append({
            "property_id": pid,
            "quick_cmd": f"./check {pid} quick",
            "thorough_cmd": f"./check {pid} thorough",
            "evidence_file": f"/verif/evidence/{pid}.json",
            "replay_cmd_template": "./check replay {path}",
            "engine": "scalesim",
            "level_claimed": {"category": level, "text": text, "design_ref": ref},
            "level_note": note,
            "technique": tech,
        })
    na = [{"property_id": k, "reason": v} for k, v in sorted(NA.items())]
    for p in PLANNED:
        if p not in CHECKS or not CHECKS[p][5]:
            na.append({"property_id": p, "reason": "not claimed yet: simulation check designed (DESIGN.md section 4) but not built/validated at this commit"})
    m = {
        "version": 1,
        "setup_cmd": "./check build",
        "hooks": {
            "guard": "paritytech_parity_scale_codec_verif",
            "enable": "no hooks are needed: every seam is a public trait (Input, Output, io::Read, io::Write), a public wrapper, the process allocator, an element type or the cargo feature set; the guard name is reserved and unused",
            "baseline_off_cmd": "cd /repo && cargo test --workspace --no-fail-fast --offline",
            "source_commits": [],
            "add_only": True,
        },
        "engines": [
            {"name": "cfgprobe", "path": "/verif/cfgprobe", "serves_properties": ["C20"], "kind_free_text": "probe binary built once per cargo feature configuration of the codec; driven by scalesim (sim/src/configs.rs)"},
            {"name": "scalesim", "path": "/verif/sim", "serves_properties": sorted(k for k,v in CHECKS.items() if v[5]),
             "kind_free_text": "deterministic simulator with fault injection: seeded plan generation (xoshiro256**), plan execution over simulated Input/Read/Write/Output endpoints, storage-fault wire, accounting allocator, instrumented element types, independent SCALE reference model as oracle, forked supervised workers, greedy plan minimiser, replay files"},
        ],
        "checks": checks,
        "not_applicable": sorted(na, key=lambda x: x["property_id"]),
        "notes": "All checks: `./check <ID> quick|thorough`; exit 0 held / 1 violation (VIOLATION line, replay under /verif/replays) / 2 harness error. VERIF_SEED and VERIF_TIER honoured. Known findings: /verif/KNOWN_FINDINGS.txt.",
    }
    with open(os.path.join(HERE, "MANIFEST.json"), "w") as f:
        json.dump(m, f, indent=1)
        f.write("\n")
    try:
        import jsonschema
        jsonschema.validate(m, json.load(open("/root/.vp/MANIFEST.schema.json")))
        print("MANIFEST.json valid;", len(checks), "checks,", len(na), "not_applicable")
    except ImportError:
        print("jsonschema not available; wrote MANIFEST.json unvalidated")

if __name__ == "__main__":
    main()
