#!/usr/bin/env python3
"""Generates /verif/MANIFEST.json from the table below (single place to maintain it)."""
import json, os, sys
HERE = os.path.dirname(os.path.dirname(os.path.abspath(__file__)))

NA = {
 "C01": "pure function from a value to bytes: no source, sink, fault, history or configuration in its statement; comparing encode(v) with a reference encoder over generated values is differential input generation, not simulation (DESIGN.md section 5)",
 "C04": "pure property of compact integers decided by exhaustive enumeration of values and byte strings (model checking), no seam involved; Compact subjects still take part in C03/C08/C14 under faults",
 "C05": "quantifies over type definitions (programs): deciding it means generating and compiling programs; the simulator runs a fixed catalogue of derived types only",
 "C13": "arithmetic bound max_encoded_len() >= encode().len() on a pure function; no schedule, fault, I/O or history dimension",
 "C16": "pure byte equality between two encodings of the same logical value; no seam involved",
 "C17": "compile-time acceptance/rejection of programs; nothing executes under a simulator",
}

# id -> (level, text, note, technique, design_ref, built)
CHECKS = {
 "C02": ("exploration",
         "Seeded search over wire simulations: streams of 1..6 encoded messages of ~190 concrete subject types (values biased to lengths around multiples of the 16 KiB decode window) + suffix, decoded in order from one simulated source stack (short reads, EINTR, unknown remaining length, defaulted read_byte, shared-buffer input, non-binding wrapper layers); oracle: decode Ok, value equals the model value, bytes taken from the base equal the bytes produced after every message, suffix untouched. Sampling, not proof.",
         "Trusted: the model<->type bridges (Modelled impls), SimRead/SimInput/SimWrite seam implementations, rustc. Type universe = fixed catalogue.",
         "deterministic simulation: seeded wire/stream simulation with benign I/O fault injection (short reads/writes, EINTR, unknown length), position oracle per message",
         "DESIGN.md section 4 C02", True),
}
PLANNED = ["C03","C06","C07","C08","C09","C10","C11","C12","C14","C15","C18","C19","C20"]

def main():
    checks = []
    for pid, (level, text, note, tech, ref, built) in sorted(CHECKS.items()):
        if not built: continue
        checks.append({
            "property_id": pid,
            "quick_cmd": f"./check {pid} quick",
            "thorough_cmd": f"./check {pid} thorough",
            "evidence_file": f"/verif/evidence/{pid}.json",
            "replay_cmd_template": "./check replay {path}",
            "engine": "scalesim",
            "level_claimed": {"category": level, "text": text, "design_ref": ref},
            "level_note": note,
            "technique": tech,
        })
    na = [{"property_id": k, "reason": v} for k, v in sorted(NA.items())]
    for p in PLANNED:
        if p not in CHECKS or not CHECKS[p][5]:
            na.append({"property_id": p, "reason": "not claimed yet: simulation check designed (DESIGN.md section 4) but not built/validated at this commit"})
    m = {
        "version": 1,
        "setup_cmd": "./check build",
        "hooks": {
            "guard": "paritytech_parity_scale_codec_verif",
            "enable": "no hooks are needed: every seam is a public trait (Input, Output, io::Read, io::Write), a public wrapper, the process allocator, an element type or the cargo feature set; the guard name is reserved and unused",
            "baseline_off_cmd": "cd /repo && cargo test --workspace --no-fail-fast --offline",
            "source_commits": [],
            "add_only": True,
        },
        "engines": [
            {"name": "scalesim", "path": "/verif/sim", "serves_properties": sorted(k for k,v in CHECKS.items() if v[5]),
             "kind_free_text": "deterministic simulator with fault injection: seeded plan generation (xoshiro256**), plan execution over simulated Input/Read/Write/Output endpoints, storage-fault wire, accounting allocator, instrumented element types, independent SCALE reference model as oracle, forked supervised workers, greedy plan minimiser, replay files"},
        ],
        "checks": checks,
        "not_applicable": sorted(na, key=lambda x: x["property_id"]),
        "notes": "All checks: `./check <ID> quick|thorough`; exit 0 held / 1 violation (VIOLATION line, replay under /verif/replays) / 2 harness error. VERIF_SEED and VERIF_TIER honoured. Known findings: /verif/KNOWN_FINDINGS.txt.",
    }
    with open(os.path.join(HERE, "MANIFEST.json"), "w") as f:
        json.dump(m, f, indent=1)
        f.write("\n")
    try:
        import jsonschema
        jsonschema.validate(m, json.load(open("/root/.vp/MANIFEST.schema.json")))
        print("MANIFEST.json valid;", len(checks), "checks,", len(na), "not_applicable")
    except ImportError:
        print("jsonschema not available; wrote MANIFEST.json unvalidated")

if __name__ == "__main__":
    main()
