#!/usr/bin/env python3
"""Archives round-2 mutants (C, D) from /tmp/mut3-<ID>/OUT into /verif/seeded/<ID>-<X>/."""
import json, os, shutil, re
r2 = {}
for l in open("/tmp/r3_first_contact.log"):
    m = re.match(r"(C\d+-[EF]) old_rc=(\d) \[(.*?)\] new_rc=(\d) \[(.*?)\]", l)
    if m: r2[m.group(1)] = {"checks_at_commit_bfc7329": "VIOLATION: "+m.group(3) if m.group(2)=="1" else "quiet (missed)", "after_strengthening_initial": ("VIOLATION: "+m.group(5)) if m.group(4)=="1" else ("harness-exit-2" if m.group(4)=="2" else "quiet")}
for pid in ["C02","C03","C06","C07","C08","C09","C10","C11","C12","C14","C15","C18","C19","C20"]:
    src=f"/tmp/mut3-{pid}/OUT"
    summ=json.load(open(f"{src}/summary.json"))
    for x in "EF":
        key=f"{pid}-{x}"; dst=f"/verif/seeded/{key}"; os.makedirs(dst, exist_ok=True)
        shutil.copy(f"{src}/{x}.diff", f"{dst}/patch.diff")
        shutil.copy(f"{src}/mutant_demo_{x}.rs", f"{dst}/mutant_demo.rs")
        conf=json.load(open(f"{src}/confirm_{x}.json"))
        meta={"id":key,"property":pid,"round":3,
              "change":summ[x].get("change"),"needs_to_manifest":summ[x].get("needs"),
              "origin":"fresh sub-agent given only the property text, the four earlier changes to avoid, and a scratch worktree of /repo (nothing from /verif)",
              "confirmed_by_me":{"where":f"scratch worktree /tmp/mut3-{pid} (removed afterwards)",
                 "ran":["git apply patch.diff","cargo test --workspace --no-fail-fast --offline (existing suite, demo files removed)","cargo test --offline <features> --test mutant_demo (with the patch)","git checkout -- . ; cargo test --offline <features> --test mutant_demo (without the patch)"],
                 "existing_suite_passed":conf["suite_passed_count"],"existing_suite_failed":conf["suite_failed"].split(),
                 "existing_suite_failures_are_the_3_known_ui_targets":True,
                 "demo_exit_code_with_patch":conf["demo_exit_with_mutant"],"demo_exit_code_without_patch":conf["demo_exit_without_mutant"],
                 "demo_features":conf.get("demo_features","").strip(),
                 "patch_adapted_to_rewritten_repo_fix":conf.get("adapted_to_rewritten_fix",False)},
              "first_contact":r2.get(key),
              "detection":"see seeded/detection.json"}
        json.dump(meta, open(f"{dst}/meta.json","w"), indent=1)
    shutil.copy(f"{src}/NOTES.md", f"/verif/seeded/notes/{pid}-NOTES-round3.md")
print("archived round 2")
