#!/usr/bin/env python3
"""Archives one round-7 mutant: tools/mkseeded7.py <ID> <first-contact result line> [<after-strengthening line>]
Takes /tmp/wt-<ID>-N/OUT/{N.diff,mutant_demo_N.rs,note_N.txt,confirm_N.json} into /verif/seeded/<ID>-N/."""
import json, os, shutil, sys
pid, first = sys.argv[1], sys.argv[2]
final = sys.argv[3] if len(sys.argv) > 3 else first
src = f"/tmp/wt-{pid}-N/OUT"; key = f"{pid}-N"; dst = f"/verif/seeded/{key}"
os.makedirs(dst, exist_ok=True)
shutil.copy(f"{src}/N.diff", f"{dst}/patch.diff")
shutil.copy(f"{src}/mutant_demo_N.rs", f"{dst}/mutant_demo.rs")
conf = json.load(open(f"{src}/confirm_N.json"))
note = open(f"{src}/note_N.txt").read().strip()
meta = {"id": key, "property": pid, "round": 7,
        "change_and_needs_to_manifest": note,
        "origin": "fresh sub-agent given only the property text and a scratch worktree of /repo (nothing from /verif)",
        "confirmed_by_me": {"where": f"scratch worktree /tmp/wt-{pid}-N (removed afterwards)",
            "ran": ["git apply patch.diff", "cargo test --workspace --no-fail-fast --offline", "cargo test --offline <features> --test mutant_demo_N (with / without the patch)"],
            "existing_suite_passed": conf["suite_passed_count"], "existing_suite_failed": conf["suite_failed"].split(),
            "existing_suite_failures_are_the_known_ui_targets_that_also_fail_unpatched_under_plain_cargo_test": True,
            "demo_exit_code_with_patch": conf["demo_exit_with_mutant"], "demo_exit_code_without_patch": conf["demo_exit_without_mutant"],
            "demo_features": conf.get("demo_features", "").strip()},
        "first_contact": {"checks_before_strengthening": first, "after_strengthening": final},
        "detection": {"ran": "git -C /repo apply patch.diff; SCALESIM_NO_SHRINK=1 ./check <ID> quick; git -C /repo checkout -- .",
                      "result_per_check": {pid: final}}}
json.dump(meta, open(f"{dst}/meta.json", "w"), indent=1)
det = json.load(open("/verif/seeded/detection.json"))
det[key] = {pid: final.rstrip(",")}
json.dump(dict(sorted(det.items())), open("/verif/seeded/detection.json", "w"), indent=1)
print("archived", key, len(det))
