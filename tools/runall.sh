#!/bin/sh
# usage: tools/runall.sh [tier] ; honours VERIF_SEED. Prints one summary line per property.
TIER="${1:-quick}"
cd "$(dirname "$0")/.." || exit 2
for id in C02 C03 C06 C07 C08 C09 C10 C11 C12 C14 C15 C18 C19 C20; do
  s=$(date +%s)
  out=$(timeout 14400 ./check $id $TIER 2>&1); rc=$?
  e=$(date +%s)
  echo "$id rc=$rc $((e-s))s $(echo "$out" | grep -E '^(OK|FAIL|HARNESS)' | tail -1 | cut -c1-200)"
  echo "$out" | grep -E '^VIOLATION' | head -3
done
