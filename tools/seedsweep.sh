#!/bin/sh
# usage: tools/seedsweep.sh <from> <to> [tier]  -- runs every check for each seed; prints non-OK lines only
cd "$(dirname "$0")/.." || exit 2
FROM="$1"; TO="$2"; TIER="${3:-quick}"
s=$FROM
while [ "$s" -le "$TO" ]; do
  for id in C02 C03 C06 C07 C08 C09 C10 C11 C12 C14 C15 C18 C19 C20; do
    out=$(VERIF_SEED=$s ./check $id $TIER 2>&1); rc=$?
    if [ $rc -ne 0 ]; then echo "SEED $s $id rc=$rc"; echo "$out" | grep -E "^(VIOLATION|FAIL|HARNESS|  class)" | head -6 | cut -c1-500; mkdir -p sweep_replays; cp replays/$id-*-$s-* sweep_replays/ 2>/dev/null; fi
  done
  echo "seed $s done"
  s=$((s+1))
done
