#!/bin/sh
# usage: tools/try_mutant.sh <patch.diff> <ID> [tier]  -- applies the patch to /repo, runs the check, reverts.
set -u
PATCH="$1"; ID="$2"; TIER="${3:-quick}"
cd /repo || exit 2
git diff --quiet || { echo "/repo is dirty"; exit 2; }
git apply "$PATCH" || { echo "patch does not apply"; exit 2; }
cd /verif && timeout 1800 ./check "$ID" "$TIER" 2>&1 | grep -E "^(VIOLATION|KNOWN|OK|FAIL|HARNESS|  class)" | cut -c1-400
RC=$?
git -C /repo checkout -- . 
exit 0
