#!/bin/sh
# usage: tools/seeded_matrix.sh [all]   -- applies every seeded change to /repo, runs the quick check of its
# property (or of every property with "all"), undoes it, and writes seeded/detection.json.
cd /verif || exit 2
git -C /repo diff --quiet || { echo "/repo is dirty"; exit 2; }
MODE="${1:-own}"
echo "{" > seeded/detection.tmp
first=1
for d in seeded/C*-*; do
  key=$(basename $d); pid=${key%-*}
  git -C /repo apply /verif/$d/patch.diff || { echo "cannot apply $key"; continue; }
  if [ "$MODE" = all ]; then ids="C02 C03 C06 C07 C08 C09 C10 C11 C12 C14 C15 C18 C19 C20"; else ids="$pid"; fi
  res=""
  for id in $ids; do
    out=$(SCALESIM_NO_SHRINK=1 timeout 3000 ./check $id quick 2>&1); rc=$?
    cls=$(echo "$out" | grep -E "^  class=" | sed 's/^  class=\([^ ]*\).*/\1/' | sort -u | tr '\n' ',' | sed 's/,$//')
    if [ $rc -eq 1 ]; then res="$res\"$id\": \"VIOLATION: $cls\", "; elif [ $rc -eq 0 ]; then res="$res\"$id\": \"quiet\", "; else res="$res\"$id\": \"harness-exit-$rc\", "; fi
    echo "$key $id rc=$rc $cls"
  done
  git -C /repo checkout -- .
  [ $first -eq 1 ] || echo "," >> seeded/detection.tmp
  first=0
  printf ' "%s": {%s}' "$key" "$(echo "$res" | sed 's/, $//')" >> seeded/detection.tmp
done
echo "" >> seeded/detection.tmp; echo "}" >> seeded/detection.tmp
mv seeded/detection.tmp seeded/detection.json
python3 tools/merge_detection.py
