#!/usr/bin/env python3
"""Merges seeded/detection.json into every seeded/<id>/meta.json."""
import json, glob, os
d = json.load(open("/verif/seeded/detection.json"))
for m in glob.glob("/verif/seeded/C*-*/meta.json"):
    meta = json.load(open(m))
    k = meta["id"]
    if k in d:
        meta["detection"] = {"ran": "git -C /repo apply patch.diff; ./check <ID> quick; git -C /repo checkout -- .", "result_per_check": d[k]}
        json.dump(meta, open(m, "w"), indent=1)
print("merged", len(d))
