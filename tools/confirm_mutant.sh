#!/bin/sh
# usage: tools/confirm_mutant.sh <ID> <A|B>
# Confirms, in the scratch worktree /tmp/mut-<ID>, that mutant <A|B>:
#  (1) applies and compiles, (2) passes the existing suite (except the 3 known UI tests),
#  (3) its demo fails with the mutant and passes without it.  Writes OUT/confirm_<X>.json.
ID="$1"; X="$2"; W="/tmp/mut-$ID"; OUT="$W/OUT"
FEAT="derive,bit-vec,bytes,generic-array,max-encoded-len"
cd "$W" || exit 2
git checkout -q -- . ; rm -f tests/mutant_demo_*.rs
git apply "$OUT/$X.diff" || { echo "{\"id\":\"$ID\",\"mutant\":\"$X\",\"applies\":false}" > "$OUT/confirm_$X.json"; exit 1; }
cargo test --workspace --no-fail-fast --offline > "$OUT/confirm_suite_$X.log" 2>&1
FAILED=$(grep -E "^test .* \.\.\. FAILED" "$OUT/confirm_suite_$X.log" | sed 's/ \.\.\. FAILED//; s/^test //' | sort -u | tr '\n' ' ')
PASSED=$(grep -E "^test result:" "$OUT/confirm_suite_$X.log" | awk '{s+=$4} END {print s+0}')
COMPILE_ERR=$(grep -c "^error: could not compile" "$OUT/confirm_suite_$X.log")
cp "$OUT/mutant_demo_$X.rs" tests/
cargo test --offline --features "$FEAT" --test "mutant_demo_$X" > "$OUT/confirm_demo_with_$X.log" 2>&1; DEMO_WITH=$?
git checkout -q -- .
cargo test --offline --features "$FEAT" --test "mutant_demo_$X" > "$OUT/confirm_demo_without_$X.log" 2>&1; DEMO_WITHOUT=$?
rm -f tests/mutant_demo_*.rs
cat > "$OUT/confirm_$X.json" <<JSON
{"id":"$ID","mutant":"$X","applies":true,"suite_passed_count":$PASSED,"suite_failed":"$FAILED","suite_compile_errors":$COMPILE_ERR,"demo_exit_with_mutant":$DEMO_WITH,"demo_exit_without_mutant":$DEMO_WITHOUT}
JSON
cat "$OUT/confirm_$X.json"
