#!/bin/sh
# usage: tools/confirm_mutant2.sh <workdir> <ID> <X>   (round 2: /tmp/mut2-<ID>, mutants C and D)
# Like confirm_mutant.sh; demo features are taken from a first-line "// FEATURES: ..." comment if present.
W="$1"; ID="$2"; X="$3"; OUT="$W/OUT"
cd "$W" || exit 2
FEAT=$(head -3 "$OUT/mutant_demo_$X.rs" | grep -o "FEATURES:.*" | sed 's/FEATURES: *//; s/(.*//')
[ -n "$FEAT" ] || FEAT="--features derive,bit-vec,bytes,generic-array,max-encoded-len"
git checkout -q -- . ; rm -f tests/mutant_demo_*.rs
git apply "$OUT/$X.diff" || { echo "{\"id\":\"$ID\",\"mutant\":\"$X\",\"applies\":false}" > "$OUT/confirm_$X.json"; cat "$OUT/confirm_$X.json"; exit 1; }
cargo test --workspace --no-fail-fast --offline > "$OUT/confirm_suite_$X.log" 2>&1
FAILED=$(grep -E "^test .* \.\.\. FAILED" "$OUT/confirm_suite_$X.log" | sed 's/ \.\.\. FAILED//; s/^test //' | sort -u | tr '\n' ' ')
PASSED=$(grep -E "^test result:" "$OUT/confirm_suite_$X.log" | awk '{s+=$4} END {print s+0}')
COMPILE_ERR=$(grep -c "^error: could not compile" "$OUT/confirm_suite_$X.log")
cp "$OUT/mutant_demo_$X.rs" tests/
cargo test --offline $FEAT --test "mutant_demo_$X" > "$OUT/confirm_demo_with_$X.log" 2>&1; DEMO_WITH=$?
git checkout -q -- .
cargo test --offline $FEAT --test "mutant_demo_$X" > "$OUT/confirm_demo_without_$X.log" 2>&1; DEMO_WITHOUT=$?
rm -f tests/mutant_demo_*.rs
cat > "$OUT/confirm_$X.json" <<JSON
{"id":"$ID","mutant":"$X","applies":true,"suite_passed_count":$PASSED,"suite_failed":"$FAILED","suite_compile_errors":$COMPILE_ERR,"demo_exit_with_mutant":$DEMO_WITH,"demo_exit_without_mutant":$DEMO_WITHOUT,"demo_features":"$FEAT"}
JSON
cat "$OUT/confirm_$X.json"
