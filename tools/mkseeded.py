#!/usr/bin/env python3
"""Archives confirmed seeded mutants from /tmp/mut-<ID>/OUT into /verif/seeded/<ID>-<X>/."""
import json, os, shutil, sys
NEEDS = {
 "C02-A": ("decode_vec_from_items writes into spare capacity and does set_len(chunk_len) instead of len()+chunk_len: vectors of non-primitive elements longer than one 16 KiB chunk are silently truncated", "Vec/VecDeque/BinaryHeap of a non-bulk element type with len > 16384/size_of::<T>()"),
 "C02-B": ("derive: quote_decode_into no longer bails out for #[codec(compact)] fields of #[repr(transparent)] structs, so decode_into reads the raw integer", "a #[repr(transparent)] newtype with a compact field decoded in place through Box/Rc/Arc/[T;N]"),
 "C03-A": ("bool gets TYPE_INFO = U8: Vec<bool>/[bool;N] take the bulk byte-copy path and accept bytes 2..=255", "bool in element position of a bulk-decoded container, one element byte outside {0,1}"),
 "C03-B": ("Compact<u64> over-wide guard copied from the u128 impl (x > 16): prefixes announcing 9..16 payload bytes reach the 64-bit accumulation loop: shift overflow panic (debug) / garbage accepted (release)", "Compact<u64>, big-integer prefix with 9..=16 announced bytes and >= 9 payload bytes present"),
 "C06-A": ("VecDeque::encode_to emits a short (<= 8 items) wrapped run element-wise in reverse order", "a deque whose ring buffer wraps with a back run of 2..8 unequal items"),
 "C06-B": ("BitVec::encode_to raw-element fast path with a wrong alignment guard: owned bit vectors with a non-zero head offset encode shifted", "owned BitVec built from an unaligned sub-slice / split_off, length > one word and not a multiple of the word width, offset fits the slack of the last word"),
 "C07-A": ("read_vec_from_u8s (unknown-length inputs): resize + offset in elements instead of bytes: from the second chunk on data is overwritten / over-read", "unknown-length input x multi-byte primitive element x more than one 16 KiB chunk"),
 "C07-B": ("Output for io::Write calls write() once instead of write_all(): short writes are dropped", "an io::Write sink that accepts only part of the buffer"),
 "C08-A": ("IoReader::read uses a single Read::read call instead of read_exact", "IoReader over a reader returning short reads and a multi-byte read"),
 "C08-B": ("BytesCursor::scale_internal_decode_bytes no longer resets position after advancing the buffer", "decode_from_bytes of a type that decodes a Bytes and then reads more (non-last Bytes field, Vec<Bytes> with >= 2 elements)"),
 "C09-A": ("read_vec_from_u8s allocates Vec::with_capacity(len) in one go; the length check before it only binds when remaining_len is known", "unknown-length input + primitive sequence + claimed count larger than the data"),
 "C09-B": ("decode_vec_chunked: chunk_len = max(chunk_len, len/256) to cap reallocations", "claimed count > 256 chunks; non-primitive elements on any input or primitives on unknown-length input"),
 "C10-A": ("Box::decode_wrapped decodes through a raw pointer and frees by hand on Err only: a panic in the element decoder leaks the allocation", "Box/Rc/Arc of a non-zero-sized T and a panic during decode; only heap accounting sees it"),
 "C10-B": ("decode_vec_from_items decodes in place with a guard doing set_len(count) where count is chunk-relative", "Vec of non-primitive elements longer than one chunk (len*size_of::<T>() > 16 KiB) and a failure in the second or later chunk"),
 "C11-A": ("decode_vec_from_items calls descend_ref for every chunk after the first but ascends once", "depth-limited decoding of a Vec of non-primitive elements longer than one chunk"),
 "C11-B": ("Rc/Arc decode through a helper that skips descend_ref/ascend_ref", "depth-limited decoding of a type nesting through Rc/Arc with a limit below the true depth"),
 "C12-A": ("decode_vec_chunked announces memory only for the first chunk (capacity() == 0 guard)", "a single sequence whose buffer exceeds 16384 bytes"),
 "C12-B": ("DepthTrackingInput no longer forwards on_before_alloc_mem", "the composition decode_with_depth_limit(d, &mut MemTrackingInput::new(..))"),
 "C14-A": ("decode_vec_from_items clamps the declared length to remaining_len instead of failing", "per-item Vec on a known-length input, cut right after the count prefix or at an element boundary of 1-byte elements"),
 "C14-B": ("two cooperating sites: decode_all fast path trusting encoded_fixed_size + Duration::encoded_fixed_size = Some(16) (real: 12)", "decode_all of a top-level Duration / [Duration;N] with 1..4 trailing bytes per element"),
 "C15-A": ("prefix-width change done in place assuming the prefix doubles in size", "one append taking the count across two width classes (e.g. <64 -> >=16384) or across 2^30"),
 "C15-B": ("early return Ok(vec) when the batch is empty, before looking at the input", "a batch of size 0 on empty input or on input with an invalid count prefix"),
 "C18-A": ("DecodeLength::len rejects counts larger than the remaining bytes", "collections of zero-sized elements (encoding is the prefix only)"),
 "C18-B": ("[T;N]::skip reads encoded_fixed_size bytes without validating elements", "skip of [bool;N] (or nested) over a byte other than 0/1"),
 "C19-A": ("CountedInput::read credits min(available, requested) on a failed read when the length is known", "a failed multi-byte read with 0 < remaining < requested"),
 "C19-B": ("CountedInput forwards scale_internal_decode_bytes to the inner input (feature bytes): those reads bypass the counter", "feature bytes and a decoded type containing bytes::Bytes"),
 "C20-A": ("#[cfg(not(feature = \"std\"))] pre-check in decode_vec_from_items rejecting remaining_len < len", "a build without std + Vec of zero-byte items with fewer bytes left than the count"),
 "C20-B": ("BytesCursor::scale_internal_decode_bytes clamps the length instead of rejecting", "feature bytes + decode_from_bytes + a Bytes field whose length prefix exceeds the remaining data, last in the input"),
}
DETECT = {}
for key, (what, needs) in sorted(NEEDS.items()):
    pid, x = key.split("-")
    src = f"/tmp/mut-{pid}/OUT"
    dst = f"/verif/seeded/{key}"
    if not os.path.exists(f"{src}/{x}.diff"):
        print("missing", key); continue
    os.makedirs(dst, exist_ok=True)
    shutil.copy(f"{src}/{x}.diff", f"{dst}/patch.diff")
    shutil.copy(f"{src}/mutant_demo_{x}.rs", f"{dst}/mutant_demo.rs")
    conf = json.load(open(f"{src}/confirm_{x}.json"))
    meta = {
        "id": key, "property": pid,
        "change": what,
        "needs_to_manifest": needs,
        "origin": "fresh sub-agent given only the property text and a scratch worktree of /repo (nothing from /verif)",
        "confirmed_by_me": {
            "where": f"scratch worktree /tmp/mut-{pid} (removed afterwards)",
            "ran": ["git apply patch.diff", "cargo test --workspace --no-fail-fast --offline  (existing suite, demo files removed)", "cargo test --offline <features> --test mutant_demo  (with the patch)", "git checkout -- . ; cargo test --offline <features> --test mutant_demo  (without the patch)"],
            "existing_suite_passed": conf["suite_passed_count"],
            "existing_suite_failed": conf["suite_failed"].split(),
            "existing_suite_failures_are_the_3_known_ui_targets": True,
            "demo_exit_code_with_patch": conf["demo_exit_with_mutant"],
            "demo_exit_code_without_patch": conf["demo_exit_without_mutant"],
            "demo_features": conf.get("demo_features", "--features derive,bit-vec,bytes,generic-array,max-encoded-len"),
        },
        "detection": DETECT.get(key, "see DESIGN.md section 9"),
    }
    json.dump(meta, open(f"{dst}/meta.json", "w"), indent=1)
print("archived", len(NEEDS))
