#!/bin/sh
# Applies every behaviour-preserving refactor under seeded/benign/ and runs all quick checks:
# every one of them must stay quiet (exit 0).
cd /verif || exit 2
git -C /repo diff --quiet || { echo "/repo is dirty"; exit 2; }
for p in seeded/benign/*.diff; do
  name=$(basename $p .diff)
  git -C /repo apply /verif/$p || { echo "$name: cannot apply"; continue; }
  line="$name:"
  for id in C02 C03 C06 C07 C08 C09 C10 C11 C12 C14 C15 C18 C19 C20; do
    out=$(timeout 3000 ./check $id quick 2>&1); rc=$?
    if [ $rc -eq 0 ]; then line="$line $id=quiet"; else line="$line $id=RC$rc"; echo "$out" | grep -E "^(VIOLATION|  class|HARNESS)" | head -4 | cut -c1-400; fi
  done
  git -C /repo checkout -- .
  echo "$line"
done
