#!/usr/bin/env python3
"""Archives round-6 mutants (L, M) from /tmp/mut6-<ID>/OUT into /verif/seeded/<ID>-<X>/."""
import json, os, shutil, re
first = {}
for l in open("/tmp/r6_matrix.out"):
    m = re.match(r"(C\d+-[LM]) rc=(\d) \[(.*?)\]", l)
    if m: first[m.group(1)] = ("VIOLATION: " + m.group(3)) if m.group(2) == "1" else ("harness-exit-2" if m.group(2) == "2" else "quiet (missed)")
after = {"C11-M": "VIOLATION: abort.stack_overflow,c11.accepts_deep_value,c11.entry_points_differ,",
         "C11-L": "quiet (not claimed as a violation: see DESIGN.md 9.4, round 6)"}
det = json.load(open("/verif/seeded/detection.json"))
for pid in ["C08", "C09", "C11", "C12", "C15", "C18", "C19"]:
    src = f"/tmp/mut6-{pid}/OUT"
    summ = json.load(open(f"{src}/summary.json"))
    for x in "LM":
        key = f"{pid}-{x}"; dst = f"/verif/seeded/{key}"; os.makedirs(dst, exist_ok=True)
        shutil.copy(f"{src}/{x}.diff", f"{dst}/patch.diff")
        shutil.copy(f"{src}/mutant_demo_{x}.rs", f"{dst}/mutant_demo.rs")
        conf = json.load(open(f"{src}/confirm_{x}.json"))
        sx = summ.get(x, {}) if isinstance(summ, dict) else {}
        final = after.get(key, first.get(key))
        meta = {"id": key, "property": pid, "round": 6,
                "change": sx.get("change"), "needs_to_manifest": sx.get("needs") or sx.get("trigger"),
                "origin": "fresh sub-agent given only the property text, one-line descriptions of all earlier changes for this property, and a scratch worktree of /repo (nothing from /verif)",
                "confirmed_by_me": {"where": f"scratch worktree /tmp/mut6-{pid} (removed afterwards)",
                    "ran": ["git apply patch.diff", "cargo test --workspace --no-fail-fast --offline", "cargo test --offline <features> --test mutant_demo (with / without the patch)"],
                    "existing_suite_passed": conf["suite_passed_count"], "existing_suite_failed": conf["suite_failed"].split(),
                    "existing_suite_failures_are_the_3_known_ui_targets": True,
                    "demo_exit_code_with_patch": conf["demo_exit_with_mutant"], "demo_exit_code_without_patch": conf["demo_exit_without_mutant"],
                    "demo_features": conf.get("demo_features", "").strip()},
                "first_contact": {"checks_before_strengthening": first.get(key), "after_strengthening": final},
                "detection": {"ran": "git -C /repo apply patch.diff; SCALESIM_NO_SHRINK=1 ./check <ID> quick; git -C /repo checkout -- .",
                              "result_per_check": {pid: final}}}
        json.dump(meta, open(f"{dst}/meta.json", "w"), indent=1)
        det[key] = {pid: final.rstrip(",")}
    shutil.copy(f"{src}/NOTES.md", f"/verif/seeded/notes/{pid}-NOTES-round6.md")
json.dump(dict(sorted(det.items())), open("/verif/seeded/detection.json", "w"), indent=1)
print("archived round 6", len(det))
