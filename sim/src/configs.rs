//! C20 — wire format is identical in every feature configuration (seam S9).
//! Builds /verif/cfgprobe once per configuration against /repo's current working tree, runs the
//! same seeded corpus in each build and compares per-family digests.

use serde_json::json;
use std::collections::BTreeMap;
use std::path::PathBuf;
use std::process::Command;
use std::time::Instant;

#[derive(Clone, Debug)]
pub struct Config {
    pub name: String,
    pub features: Vec<&'static str>,
}

const OPTIONAL: [&str; 5] = ["derive", "bit-vec", "bytes", "generic-array", "max-encoded-len"];

fn bases() -> Vec<(&'static str, Vec<&'static str>)> {
    vec![("std", vec!["codec-std"]), ("nostd", vec![]), ("nostd-chain", vec!["chain-error"])]
}

pub fn configs(thorough: bool) -> Vec<Config> {
    let mut subsets: Vec<(String, Vec<&'static str>)> = vec![("none".into(), vec![]), ("all".into(), OPTIONAL.to_vec())];
    if thorough {
        for f in OPTIONAL {
            subsets.push((format!("only-{f}"), vec![f]));
        }
        // complements of the singles complete a pairwise (and most 3-wise) covering
        for f in OPTIONAL {
            subsets.push((format!("all-but-{f}"), OPTIONAL.iter().copied().filter(|x| *x != f).collect()));
        }
    }
    let mut out = Vec::new();
    for (bn, bf) in bases() {
        for (sn, sf) in &subsets {
            let mut features = bf.clone();
            features.extend(sf.iter().copied());
            out.push(Config { name: format!("{bn}+{sn}"), features });
        }
    }
    out
}

fn verif_dir() -> PathBuf {
    PathBuf::from(std::env::var("SCALESIM_VERIF_DIR").unwrap_or_else(|_| "/verif".to_string()))
}

fn bin_of(c: &Config) -> PathBuf {
    verif_dir().join("target").join("cfg").join(&c.name).join("release").join("cfgprobe")
}

fn build(c: &Config) -> Result<(), String> {
    let dir = verif_dir().join("cfgprobe");
    let tdir = verif_dir().join("target").join("cfg").join(&c.name);
    let mut cmd = Command::new("cargo");
    cmd.current_dir(&dir).env("CARGO_NET_OFFLINE", "true").arg("build").arg("--release").arg("--offline").arg("--target-dir").arg(&tdir);
    if !c.features.is_empty() {
        cmd.arg("--features").arg(c.features.join(","));
    }
    let out = cmd.output().map_err(|e| format!("cargo: {e}"))?;
    if !out.status.success() {
        return Err(format!("build of configuration {} failed:\n{}", c.name, String::from_utf8_lossy(&out.stderr).lines().rev().take(30).collect::<Vec<_>>().into_iter().rev().collect::<Vec<_>>().join("\n")));
    }
    Ok(())
}

fn run_probe(c: &Config, args: &[String]) -> Result<String, String> {
    let out = Command::new(bin_of(c)).args(args).output().map_err(|e| format!("run {}: {e}", c.name))?;
    if !out.status.success() {
        return Err(format!("cfgprobe {} {:?} exited with {:?}: {}", c.name, args, out.status, String::from_utf8_lossy(&out.stderr).chars().take(600).collect::<String>()));
    }
    Ok(String::from_utf8_lossy(&out.stdout).to_string())
}

fn parse_families(s: &str) -> BTreeMap<String, (u64, u64, String)> {
    let mut m = BTreeMap::new();
    for l in s.lines() {
        if let Some(rest) = l.strip_prefix("FAMILY ") {
            let p: Vec<&str> = rest.split(' ').collect();
            let get = |k: &str| p.iter().find_map(|x| x.strip_prefix(k)).unwrap_or("").to_string();
            m.insert(p[0].to_string(), (get("types=").parse().unwrap_or(0), get("items=").parse().unwrap_or(0), get("digest=")));
        }
    }
    m
}

#[derive(serde::Serialize, serde::Deserialize, Debug, Clone)]
pub struct ConfigReplay {
    pub property: String,
    pub scenario: String,
    pub seed: u64,
    pub items_per_type: u64,
    pub config_a: String,
    pub features_a: Vec<String>,
    pub config_b: String,
    pub features_b: Vec<String>,
    pub family: String,
    pub item_type: String,
    pub index: u64,
    pub line_a: String,
    pub line_b: String,
    pub class: String,
}

/// Runs at most `par` builds at a time.
fn build_all(cfgs: &[Config], par: usize) -> Result<(), String> {
    let next = std::sync::atomic::AtomicUsize::new(0);
    let err: std::sync::Mutex<Option<String>> = std::sync::Mutex::new(None);
    std::thread::scope(|s| {
        for _ in 0..par {
            s.spawn(|| loop {
                let i = next.fetch_add(1, std::sync::atomic::Ordering::Relaxed);
                if i >= cfgs.len() {
                    break;
                }
                if let Err(e) = build(&cfgs[i]) {
                    *err.lock().unwrap() = Some(e);
                }
            });
        }
    });
    match err.into_inner().unwrap() {
        Some(e) => Err(e),
        None => Ok(()),
    }
}

fn first_difference(a: &Config, b: &Config, seed: u64, n: u64, family: &str) -> Result<Option<(String, u64, String, String)>, String> {
    let args = vec![seed.to_string(), n.to_string(), "list".to_string(), family.to_string()];
    let la = run_probe(a, &args)?;
    let lb = run_probe(b, &args)?;
    for (x, y) in la.lines().zip(lb.lines()) {
        if x != y && x.starts_with("ITEM ") {
            // ITEM fam type idx line   (type names may contain spaces: split from the right)
            let head: Vec<&str> = x.splitn(3, ' ').collect();
            let rest = head.get(2).copied().unwrap_or("");
            // rest = "<type> <idx> <line>" ; idx is the first token that parses as u64 followed by a token starting with enc:/bytes:
            let toks: Vec<&str> = rest.split(' ').collect();
            let mut k = 0;
            while k + 1 < toks.len() && !(toks[k].parse::<u64>().is_ok() && (toks[k + 1].starts_with("enc:") || toks[k + 1].starts_with("bytes:"))) {
                k += 1;
            }
            let ty = toks[..k].join(" ");
            let idx: u64 = toks.get(k).and_then(|t| t.parse().ok()).unwrap_or(0);
            return Ok(Some((ty, idx, x.to_string(), y.to_string())));
        }
    }
    Ok(None)
}

pub fn check(prop: &str, thorough: bool, seed: u64) -> i32 {
    let t0 = Instant::now();
    let cfgs = configs(thorough);
    let n: u64 = match std::env::var("SCALESIM_CASE_CAP").ok().and_then(|s| s.parse::<u64>().ok()) {
        Some(c) => c.min(200).max(10),
        None => {
            if thorough {
                6000
            } else {
                800
            }
        },
    };
    if let Err(e) = build_all(&cfgs, 4) {
        eprintln!("HARNESS-ERROR: {e}");
        return 2;
    }
    // run all probes (16 at a time)
    let results: std::sync::Mutex<Vec<(usize, Result<String, String>)>> = std::sync::Mutex::new(Vec::new());
    let next = std::sync::atomic::AtomicUsize::new(0);
    std::thread::scope(|s| {
        for _ in 0..16.min(cfgs.len()) {
            s.spawn(|| loop {
                let i = next.fetch_add(1, std::sync::atomic::Ordering::Relaxed);
                if i >= cfgs.len() {
                    break;
                }
                let r = run_probe(&cfgs[i], &[seed.to_string(), n.to_string(), "digest".to_string()]);
                results.lock().unwrap().push((i, r));
            });
        }
    });
    let mut results = results.into_inner().unwrap();
    results.sort_by_key(|r| r.0);
    let mut fams: Vec<BTreeMap<String, (u64, u64, String)>> = Vec::new();
    for (i, r) in &results {
        match r {
            Ok(s) => fams.push(parse_families(s)),
            Err(e) => {
                // a probe that dies (panic in the library under one configuration) is a divergence
                eprintln!("HARNESS-ERROR: probe of configuration {} failed: {}", cfgs[*i].name, e);
                return 2;
            },
        }
    }
    let mut violations = 0u64;
    let mut reported = Vec::new();
    let mut total_items = 0u64;
    let mut corpus_items = 0u64;
    let mut per_family: BTreeMap<String, (u64, u64)> = BTreeMap::new();
    // reference = first configuration in which the family exists
    let mut reference: BTreeMap<String, (usize, String)> = BTreeMap::new();
    for (i, f) in fams.iter().enumerate() {
        for (name, (_types, items, digest)) in f {
            total_items += items;
            let e = per_family.entry(name.clone()).or_insert((0, 0));
            e.0 += 1;
            e.1 = *items;
            match reference.get(name) {
                None => {
                    reference.insert(name.clone(), (i, digest.clone()));
                    corpus_items += items;
                },
                Some((ri, rd)) => {
                    if rd != digest {
                        violations += 1;
                        let a = &cfgs[*ri];
                        let b = &cfgs[i];
                        let diff = match first_difference(a, b, seed, n, name) {
                            Ok(d) => d,
                            Err(e) => {
                                eprintln!("HARNESS-ERROR: {e}");
                                return 2;
                            },
                        };
                        let (ty, idx, la, lb) = diff.unwrap_or(("?".into(), 0, "?".into(), "?".into()));
                        let rep = ConfigReplay {
                            property: prop.to_string(),
                            scenario: "configs".into(),
                            seed,
                            items_per_type: n,
                            config_a: a.name.clone(),
                            features_a: a.features.iter().map(|s| s.to_string()).collect(),
                            config_b: b.name.clone(),
                            features_b: b.features.iter().map(|s| s.to_string()).collect(),
                            family: name.clone(),
                            item_type: ty.clone(),
                            index: idx,
                            line_a: la.chars().take(2000).collect(),
                            line_b: lb.chars().take(2000).collect(),
                            class: "c20.configurations_differ".into(),
                        };
                        let rdir = verif_dir().join("replays");
                        let _ = std::fs::create_dir_all(&rdir);
                        let rfile = rdir.join(format!("{}-configs-{}-{}-{}.json", prop, seed, b.name, name));
                        if std::fs::write(&rfile, serde_json::to_string_pretty(&rep).unwrap()).is_err() {
                            eprintln!("HARNESS-ERROR: cannot write replay file");
                            return 2;
                        }
                        if reported.len() < 8 {
                            println!("VIOLATION property={} replay={}", prop, rfile.display());
                            println!("  class=c20.configurations_differ family={} type={} item={} configs {} vs {}", name, ty, idx, a.name, b.name);
                            println!("    {}: {}", a.name, la.chars().take(300).collect::<String>());
                            println!("    {}: {}", b.name, lb.chars().take(300).collect::<String>());
                        }
                        reported.push(json!({"family": name, "type": ty, "index": idx, "config_a": a.name, "config_b": b.name, "replay": rfile.display().to_string()}));
                    }
                },
            }
        }
    }
    // samples: a few item lines from the default configuration
    let mut samples = Vec::new();
    for (fam, ty, idx) in [("core", "Vec<u16>", "0"), ("core", "BTreeMap<u32, String>", "2"), ("core", "Compact<u64>", "3")] {
        if let Ok(s) = run_probe(&cfgs[0], &[seed.to_string(), n.to_string(), "item".into(), fam.into(), ty.into(), idx.into()]) {
            if let Some(l) = s.lines().find(|l| l.starts_with("ITEM ")) {
                samples.push(json!(l.chars().take(400).collect::<String>()));
            }
        }
    }
    if samples.is_empty() {
        samples.push(json!("(no sample line)"));
    }
    let wall = t0.elapsed().as_secs_f64();
    let ev = json!({
        "property_id": prop,
        "tier": if thorough { "thorough" } else { "quick" },
        "seed": seed,
        "level": "exploration",
        "coverage": {
            "evaluations": total_items,
            "distinct_nontrivial": corpus_items,
            "rule": "one cfgprobe build per feature configuration (bases std+chain-error | no default features | no_std+chain-error x optional feature subsets: none/all in quick; none/all/each single/each all-but-one in thorough); every build runs the same seeded corpus: per subject type N items = generated value encoded through encode() and a custom Output (+encoded_size) and decoded back, a damaged encoding, and a random string, each decoded from a slice and from a custom unknown-length Input; the line of an item holds bytes, accept/reject, consumed length and the re-encoding of the decoded value (error texts excluded); families (core / derive / bit-vec / bytes / generic-array) are digested and compared across all configurations in which they exist; evaluations = items summed over configurations; distinct_nontrivial = distinct corpus items (family, type, index), each evaluated in >= 3 configurations",
            "samples": samples,
            "exhaustive": false,
            "configurations": cfgs.iter().map(|c| json!({"name": c.name, "features": c.features})).collect::<Vec<_>>(),
            "families": per_family.iter().map(|(k, v)| json!({"family": k, "configurations": v.0, "items": v.1})).collect::<Vec<_>>(),
            "items_per_type": n,
            "faults_fired": {"configuration_switch": cfgs.len()},
            "simulated_time": "none: the library has no clock",
            "runs_per_hour": (total_items as f64 / wall.max(0.001) * 3600.0) as u64,
            "seeds": 1,
            "violations_reported": reported,
            "components": {"real": ["parity-scale-codec built in each feature configuration", "parity-scale-codec-derive (when enabled)", "bitvec / bytes / generic-array (when enabled)"], "simulated": ["custom Output sink", "custom unknown-length Input", "damaged / random wire bytes"]}
        },
        "assumptions": ["the probe binary itself always links std; only the codec's cargo features vary", "io::Write sinks and IoReader exist only with std and are therefore not part of the cross-configuration comparison (covered by C07/C08)", "sampling, not proof"],
        "wall_s": wall,
        "violations": violations,
    });
    let edir = verif_dir().join("evidence");
    let _ = std::fs::create_dir_all(&edir);
    if std::fs::write(edir.join(format!("{}.json", prop)), serde_json::to_string_pretty(&ev).unwrap()).is_err() {
        eprintln!("HARNESS-ERROR: cannot write evidence");
        return 2;
    }
    println!("{} {} tier={} configurations={} items={} corpus_items={} violations={} wall={:.1}s", if violations == 0 { "OK" } else { "FAIL" }, prop, if thorough { "thorough" } else { "quick" }, cfgs.len(), total_items, corpus_items, violations, wall);
    if violations == 0 {
        0
    } else {
        1
    }
}

pub fn replay(txt: &str, file: &str) -> i32 {
    let rep: ConfigReplay = match serde_json::from_str(txt) {
        Ok(r) => r,
        Err(e) => {
            eprintln!("cannot parse {file}: {e}");
            return 2;
        },
    };
    let all = configs(true);
    let a = all.iter().find(|c| c.name == rep.config_a);
    let b = all.iter().find(|c| c.name == rep.config_b);
    let (a, b) = match (a, b) {
        (Some(a), Some(b)) => (a.clone(), b.clone()),
        _ => {
            eprintln!("unknown configuration in {file}");
            return 2;
        },
    };
    if let Err(e) = build_all(&[a.clone(), b.clone()], 2) {
        eprintln!("HARNESS-ERROR: {e}");
        return 2;
    }
    let args = vec![rep.seed.to_string(), rep.items_per_type.to_string(), "item".to_string(), rep.family.clone(), rep.item_type.clone(), rep.index.to_string()];
    let la = run_probe(&a, &args);
    let lb = run_probe(&b, &args);
    match (la, lb) {
        (Ok(x), Ok(y)) => {
            let lx = x.lines().find(|l| l.starts_with("ITEM ")).unwrap_or("").to_string();
            let ly = y.lines().find(|l| l.starts_with("ITEM ")).unwrap_or("").to_string();
            println!("{}: {}", a.name, lx.chars().take(400).collect::<String>());
            println!("{}: {}", b.name, ly.chars().take(400).collect::<String>());
            if lx != ly {
                println!("REPLAY violation class=c20.configurations_differ same_class=true");
                println!("VIOLATION property={} replay={}", rep.property, file);
                1
            } else {
                println!("REPLAY pass (the configurations agree on this item on this tree)");
                0
            }
        },
        (x, y) => {
            eprintln!("HARNESS-ERROR: probe failed: {:?} {:?}", x.err(), y.err());
            2
        },
    }
}
