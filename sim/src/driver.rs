//! Command line, process supervision, reporting, replay, evidence.

use crate::engine::*;
use crate::plan::*;
use crate::scn;
use serde_json::json;
use std::collections::BTreeMap;
use std::io::{BufRead, BufReader};
use std::path::PathBuf;
use std::process::{Command, Stdio};
use std::sync::{Arc, Mutex};
use std::time::{Duration, Instant};

fn verif_dir() -> PathBuf {
    PathBuf::from(std::env::var("SCALESIM_VERIF_DIR").unwrap_or_else(|_| "/verif".to_string()))
}

fn run_dir() -> PathBuf {
    let d = verif_dir().join("target").join("run");
    let _ = std::fs::create_dir_all(&d);
    d
}

fn seed_from_env() -> u64 {
    match std::env::var("VERIF_SEED") {
        Ok(s) => s.trim().parse::<u64>().unwrap_or_else(|_| crate::prng::fnv(s.as_bytes())),
        Err(_) => crate::DEFAULT_SEED,
    }
}

fn workers_from_env() -> u64 {
    std::env::var("SCALESIM_WORKERS").ok().and_then(|s| s.parse().ok()).unwrap_or(16).max(1)
}

pub fn main(args: Vec<String>) -> i32 {
    let cmd = args.get(1).map(|s| s.as_str()).unwrap_or("");
    match cmd {
        "check" => {
            let prop = args.get(2).cloned().unwrap_or_default();
            let tier = Tier::parse(&std::env::var("VERIF_TIER").ok().or(args.get(3).cloned()).unwrap_or_default());
            let tier = if args.get(3).map(|s| s.as_str()) == Some("thorough") { Tier::Thorough } else if args.get(3).map(|s| s.as_str()) == Some("quick") { Tier::Quick } else { tier };
            check(&prop, tier)
        },
        "worker" => {
            crate::alloc::set_caps(1 << 30, 512 << 20);
            worker(&args[2..])
        },
        "runplan" => {
            let mb: usize = std::env::var("SCALESIM_CAP_MB").ok().and_then(|s| s.parse().ok()).unwrap_or(1024);
            crate::alloc::set_caps(mb << 20, (mb << 20) / 2);
            runplan(&args[2])
        },
        "replay" => replay(&args[2]),
        "selftest" => selftest(),
        "inproc" => {
            // scalesim inproc <scenario> <from> <to> [step]: runs cases in this process, on this
            // thread (used under Miri / sanitizers); prints violations; exit 1 if any.
            let sc = scn::by_name(&args[2]).expect("scenario");
            let from: u64 = args[3].parse().unwrap();
            let to: u64 = args[4].parse().unwrap();
            let step: u64 = args.get(5).and_then(|s| s.parse().ok()).unwrap_or(1);
            crate::subjects::catalogue();
            let mut st = Stats::default();
            let mut bad = 0;
            let mut idx = from;
            while idx < to.min(sc.cases(Tier::Quick)) {
                let plan = sc.gen(seed_from_env(), idx, Tier::Quick);
                if let Err(v) = run_caught(sc, &plan, &mut st) {
                    println!("INPROC-VIOLATION case={} class={} detail={}", idx, v.class, v.detail);
                    bad += 1;
                }
                idx += step;
            }
            println!("INPROC done scenario={} from={} to={} step={} sub_runs={} violations={}", sc.name(), from, to, step, st.sub_runs, bad);
            if bad > 0 {
                1
            } else {
                0
            }
        },
        "list" => {
            for s in &crate::subjects::catalogue().list {
                println!("{}", s.name);
            }
            0
        },
        "gen" => {
            // scalesim gen <scenario> <idx> : print the plan of one case
            let sc = scn::by_name(&args[2]).expect("scenario");
            let idx: u64 = args[3].parse().unwrap();
            let tier = Tier::parse(args.get(4).map(|s| s.as_str()).unwrap_or("quick"));
            let p = sc.gen(seed_from_env(), idx, tier);
            println!("{}", serde_json::to_string_pretty(&p).unwrap());
            0
        },
        _ => {
            eprintln!("usage: scalesim check <ID> [quick|thorough] | replay <file> | selftest | list");
            2
        },
    }
}

// ------------------------------------------------------------------------------------------
// worker / runplan (child processes)

fn worker(a: &[String]) -> i32 {
    let sc = match scn::by_name(&a[0]) {
        Some(s) => s,
        None => {
            eprintln!("unknown scenario {}", a[0]);
            return 2;
        },
    };
    let tier = Tier::parse(&a[1]);
    let seed: u64 = a[2].parse().unwrap();
    let w: u64 = a[3].parse().unwrap();
    let n: u64 = a[4].parse().unwrap();
    let outfile = &a[5];
    let careful = a.iter().any(|x| x == "--careful");
    let only = a.iter().position(|x| x == "--only").map(|i| a[i + 1].parse::<u64>().unwrap());
    crate::subjects::catalogue();
    let out = worker_loop(sc, seed, tier, w, n, careful, only);
    let s = serde_json::to_vec(&out).unwrap();
    if std::fs::write(outfile, s).is_err() {
        eprintln!("cannot write {}", outfile);
        return 2;
    }
    0
}

/// Runs one plan (from a replay file or a bare plan file) in this process.
/// Prints "RESULT pass" or "RESULT violation <class>\t<detail>".
fn runplan(file: &str) -> i32 {
    crate::subjects::catalogue();
    let txt = match std::fs::read_to_string(file) {
        Ok(t) => t,
        Err(e) => {
            eprintln!("cannot read {}: {}", file, e);
            return 2;
        },
    };
    let plan: Plan = match serde_json::from_str::<Replay>(&txt) {
        Ok(r) => r.plan,
        Err(_) => match serde_json::from_str::<Plan>(&txt) {
            Ok(p) => p,
            Err(e) => {
                eprintln!("cannot parse {}: {}", file, e);
                return 2;
            },
        },
    };
    let sc = match scn::by_name(&plan.scenario) {
        Some(s) => s,
        None => {
            eprintln!("unknown scenario {}", plan.scenario);
            return 2;
        },
    };
    let mut st = Stats::default();
    match run_caught(sc, &plan, &mut st) {
        Ok(()) => {
            println!("RESULT pass steps={}", st.steps);
            0
        },
        Err(v) => {
            println!("RESULT violation {}\t{}", v.class, v.detail);
            1
        },
    }
}

#[derive(Debug, Clone, PartialEq)]
enum ChildOutcome {
    Pass,
    Violation(String, String),
    Crash(String),
    Hang,
    HarnessError(String),
}

fn outcome_class(o: &ChildOutcome) -> Option<String> {
    match o {
        ChildOutcome::Pass => None,
        ChildOutcome::Violation(c, _) => Some(c.clone()),
        ChildOutcome::Crash(c) => Some(c.clone()),
        ChildOutcome::Hang => Some("hang".into()),
        ChildOutcome::HarnessError(_) => None,
    }
}

static PLAN_COUNTER: std::sync::atomic::AtomicU64 = std::sync::atomic::AtomicU64::new(0);

/// Runs a plan in a fresh child process (crash / abort / hang isolation).
fn run_plan_in_child(plan: &Plan, timeout: Duration) -> ChildOutcome {
    run_plan_in_child_caps(plan, timeout, None)
}

fn run_plan_in_child_caps(plan: &Plan, timeout: Duration, cap_mb: Option<u64>) -> ChildOutcome {
    let n = PLAN_COUNTER.fetch_add(1, std::sync::atomic::Ordering::Relaxed);
    let f = run_dir().join(format!("plan-{}-{}.json", std::process::id(), n));
    if std::fs::write(&f, serde_json::to_vec(plan).unwrap()).is_err() {
        return ChildOutcome::HarnessError("cannot write plan file".into());
    }
    let r = run_file_in_child_caps(&f, timeout, cap_mb);
    let _ = std::fs::remove_file(&f);
    r
}

fn run_file_in_child(f: &std::path::Path, timeout: Duration) -> ChildOutcome {
    run_file_in_child_caps(f, timeout, None)
}

fn run_file_in_child_caps(f: &std::path::Path, timeout: Duration, cap_mb: Option<u64>) -> ChildOutcome {
    let exe = std::env::current_exe().unwrap();
    let mut cmd = Command::new(exe);
    if let Some(mb) = cap_mb {
        cmd.env("SCALESIM_CAP_MB", mb.to_string());
    }
    let mut child = match cmd.arg("runplan").arg(f).stdout(Stdio::piped()).stderr(Stdio::piped()).spawn() {
        Ok(c) => c,
        Err(e) => return ChildOutcome::HarnessError(format!("spawn: {e}")),
    };
    let start = Instant::now();
    loop {
        match child.try_wait() {
            Ok(Some(status)) => {
                let mut so = String::new();
                let mut se = String::new();
                use std::io::Read;
                if let Some(mut o) = child.stdout.take() {
                    let _ = o.read_to_string(&mut so);
                }
                if let Some(mut e) = child.stderr.take() {
                    let _ = e.read_to_string(&mut se);
                }
                if let Some(line) = so.lines().find(|l| l.starts_with("RESULT ")) {
                    if line.starts_with("RESULT pass") {
                        return ChildOutcome::Pass;
                    }
                    let rest = &line["RESULT violation ".len()..];
                    let (c, d) = rest.split_once('\t').unwrap_or((rest, ""));
                    return ChildOutcome::Violation(c.to_string(), d.to_string());
                }
                if status.code() == Some(2) {
                    return ChildOutcome::HarnessError(se.chars().take(400).collect());
                }
                return ChildOutcome::Crash(classify_crash(&status, &se));
            },
            Ok(None) => {
                if start.elapsed() > timeout {
                    let _ = child.kill();
                    let _ = child.wait();
                    return ChildOutcome::Hang;
                }
                std::thread::sleep(Duration::from_millis(5));
            },
            Err(e) => return ChildOutcome::HarnessError(format!("wait: {e}")),
        }
    }
}

fn classify_crash(status: &std::process::ExitStatus, stderr: &str) -> String {
    use std::os::unix::process::ExitStatusExt;
    if stderr.contains("SCALESIM-ALLOC-CAP-EXCEEDED") {
        return "abort.memory_exhausted".into();
    }
    if stderr.contains("has overflowed its stack") || stderr.contains("stack overflow") {
        return "abort.stack_overflow".into();
    }
    if stderr.contains("memory allocation of") {
        return "abort.alloc_failed".into();
    }
    match status.signal() {
        Some(11) => "crash.sigsegv".into(),
        Some(6) => "crash.sigabrt".into(),
        Some(s) => format!("crash.signal{}", s),
        None => format!("crash.exit{}", status.code().unwrap_or(-1)),
    }
}

// ------------------------------------------------------------------------------------------
// check

struct KnownFinding {
    property: String,
    subject: String,
    class: String,
    text: String,
}

fn load_known_findings() -> Vec<KnownFinding> {
    let p = verif_dir().join("KNOWN_FINDINGS.txt");
    let mut out = Vec::new();
    if let Ok(txt) = std::fs::read_to_string(p) {
        for line in txt.lines() {
            let line = line.trim();
            if let Some(rest) = line.strip_prefix("finding:") {
                let parts: Vec<&str> = rest.split(" | ").map(|s| s.trim()).collect();
                let mut kf = KnownFinding { property: String::new(), subject: String::new(), class: String::new(), text: String::new() };
                for p in &parts {
                    if let Some(v) = p.strip_prefix("property=") {
                        kf.property = v.to_string();
                    } else if let Some(v) = p.strip_prefix("subject=") {
                        kf.subject = v.to_string();
                    } else if let Some(v) = p.strip_prefix("class=") {
                        kf.class = v.to_string();
                    } else {
                        kf.text = p.to_string();
                    }
                }
                out.push(kf);
            }
        }
    }
    out
}

fn spawn_worker(sc: &str, tier: Tier, seed: u64, w: u64, n: u64, outfile: &std::path::Path, careful: bool, only: Option<u64>) -> std::io::Result<std::process::Child> {
    let exe = std::env::current_exe().unwrap();
    let mut c = Command::new(exe);
    c.arg("worker").arg(sc).arg(tier.name()).arg(seed.to_string()).arg(w.to_string()).arg(n.to_string()).arg(outfile);
    if careful {
        c.arg("--careful");
    }
    if let Some(o) = only {
        c.arg("--only").arg(o.to_string());
    }
    c.stdout(if careful { Stdio::piped() } else { Stdio::null() }).stderr(Stdio::piped());
    c.spawn()
}

/// Re-runs worker share `w` printing a line before each case, to find the case that crashes
/// or hangs.  Returns (case index, crash class).
fn locate_crash(sc: &str, tier: Tier, seed: u64, w: u64, n: u64) -> Option<(u64, String)> {
    let outfile = run_dir().join(format!("careful-{}-{}-{}.json", std::process::id(), sc, w));
    let mut child = spawn_worker(sc, tier, seed, w, n, &outfile, true, None).ok()?;
    let last: Arc<Mutex<(Option<u64>, Instant)>> = Arc::new(Mutex::new((None, Instant::now())));
    let so = child.stdout.take().unwrap();
    let l2 = last.clone();
    let reader = std::thread::spawn(move || {
        for line in BufReader::new(so).lines().map_while(Result::ok) {
            if let Some(x) = line.strip_prefix("B ") {
                if let Ok(i) = x.trim().parse::<u64>() {
                    *l2.lock().unwrap() = (Some(i), Instant::now());
                }
            }
        }
    });
    let case_timeout = Duration::from_secs(300);
    let res;
    loop {
        match child.try_wait() {
            Ok(Some(status)) => {
                let _ = reader.join();
                let mut se = String::new();
                use std::io::Read;
                if let Some(mut e) = child.stderr.take() {
                    let _ = e.read_to_string(&mut se);
                }
                if status.success() {
                    res = None;
                } else {
                    let idx = last.lock().unwrap().0;
                    res = idx.map(|i| (i, classify_crash(&status, &se)));
                }
                break;
            },
            Ok(None) => {
                let (idx, at) = *last.lock().unwrap();
                if at.elapsed() > case_timeout {
                    let _ = child.kill();
                    let _ = child.wait();
                    res = idx.map(|i| (i, "hang".to_string()));
                    break;
                }
                std::thread::sleep(Duration::from_millis(20));
            },
            Err(_) => {
                res = None;
                break;
            },
        }
    }
    let _ = std::fs::remove_file(&outfile);
    res
}

struct ScenarioResult {
    stats: Stats,
    violations: Vec<FoundViolation>,
    digest: u64,
    harness_error: Option<String>,
}

fn run_scenario(sc: &dyn Scenario, tier: Tier, seed: u64, nworkers: u64) -> ScenarioResult {
    let total = sc.cases(tier);
    let n = nworkers.min(total.max(1));
    let mut children = Vec::new();
    for w in 0..n {
        let outfile = run_dir().join(format!("w-{}-{}-{}.json", std::process::id(), sc.name(), w));
        let _ = std::fs::remove_file(&outfile);
        match spawn_worker(sc.name(), tier, seed, w, n, &outfile, false, None) {
            Ok(c) => children.push((w, c, outfile)),
            Err(e) => {
                return ScenarioResult { stats: Stats::default(), violations: vec![], digest: 0, harness_error: Some(format!("spawn worker: {e}")) };
            },
        }
    }
    let deadline = Instant::now() + if tier == Tier::Quick { Duration::from_secs(3600) } else { Duration::from_secs(8 * 3600) };
    let mut stats = Stats::default();
    let mut violations: Vec<FoundViolation> = Vec::new();
    let mut digest = 0u64;
    let mut isolated: Vec<u64> = Vec::new();
    let mut harness_error = None;
    for (w, mut child, outfile) in children {
        let status = loop {
            match child.try_wait() {
                Ok(Some(s)) => break Some(s),
                Ok(None) => {
                    if Instant::now() > deadline {
                        let _ = child.kill();
                        let _ = child.wait();
                        break None;
                    }
                    std::thread::sleep(Duration::from_millis(10));
                },
                Err(_) => break None,
            }
        };
        let mut se = String::new();
        {
            use std::io::Read;
            if let Some(mut e) = child.stderr.take() {
                let _ = e.read_to_string(&mut se);
            }
        }
        let ok = status.map(|s| s.success()).unwrap_or(false);
        let parsed: Option<WorkerOut> = std::fs::read(&outfile).ok().and_then(|b| serde_json::from_slice(&b).ok());
        let _ = std::fs::remove_file(&outfile);
        match (ok, parsed) {
            (true, Some(o)) if o.done => {
                stats.merge(o.stats);
                violations.extend(o.violations);
                isolated.extend(o.isolated);
                digest ^= o.digest.rotate_left((w % 63) as u32);
            },
            _ => {
                if status.and_then(|s| s.code()) == Some(2) {
                    harness_error = Some(format!("worker {w} harness error: {}", se.chars().take(2000).collect::<String>()));
                    continue;
                }
                // abnormal exit or time-out: locate the case
                eprintln!("worker {} of scenario {} ended abnormally; locating the case in careful mode", w, sc.name());
                match locate_crash(sc.name(), tier, seed, w, n) {
                    Some((idx, class)) => {
                        let plan = sc.gen(seed, idx, tier);
                        let v = Violation { class: class.clone(), detail: format!("process died while executing case {idx}") };
                        let key = sc.finding_key(&plan, &v);
                        violations.push(FoundViolation { case: idx, class, detail: v.detail, key, plan });
                        // the rest of this worker's share is lost for statistics; say so
                        stats.skip("cases_after_crash_in_worker_share");
                    },
                    None => {
                        // The careful re-run survived.  If the plain worker dies again, the crash
                        // depends on process state we do not control (e.g. undefined behaviour in
                        // the library whose effect depends on heap layout): report the worker
                        // share itself as the replay.
                        let again_file = run_dir().join(format!("again-{}-{}-{}.json", std::process::id(), sc.name(), w));
                        let died_again = match spawn_worker(sc.name(), tier, seed, w, n, &again_file, false, None) {
                            Ok(mut c) => !c.wait().map(|s| s.success()).unwrap_or(false),
                            Err(_) => false,
                        };
                        let _ = std::fs::remove_file(&again_file);
                        if died_again {
                            let class = format!("{}.worker_share", classify_crash(&status.unwrap_or_else(|| std::process::ExitStatus::default()), &se));
                            let mut plan = Plan::new(sc.name(), "");
                            plan.set("fix_share_w", w as i64);
                            plan.set("fix_share_n", n as i64);
                            plan.set("fix_share_tier", (tier == Tier::Thorough) as i64);
                            violations.push(FoundViolation { case: w, class: class.clone(), detail: format!("worker share {w}/{n} of scenario {} dies repeatedly (not tied to one case in a fresh process: depends on process state, typically undefined behaviour in the library): {}", sc.name(), se.chars().take(200).collect::<String>()), key: format!("subject= class={class}"), plan });
                            stats.skip("cases_after_crash_in_worker_share");
                        } else {
                            harness_error = Some(format!("worker {w} died (status {:?}) but neither the careful nor the plain re-run did: resource problem. stderr: {}", status, se.chars().take(500).collect::<String>()));
                        }
                    },
                }
            },
        }
    }
    // Isolated cases: each in its own supervised process (16 at a time), with a lower
    // allocation cap so that exhaustion is detected quickly.
    isolated.sort();
    let results: Mutex<Vec<(u64, ChildOutcome)>> = Mutex::new(Vec::new());
    let next = std::sync::atomic::AtomicUsize::new(0);
    std::thread::scope(|scope| {
        for _ in 0..nworkers.min(isolated.len() as u64) {
            scope.spawn(|| loop {
                let i = next.fetch_add(1, std::sync::atomic::Ordering::Relaxed);
                if i >= isolated.len() {
                    break;
                }
                let idx = isolated[i];
                let plan = sc.gen(seed, idx, tier);
                let o = run_plan_in_child_caps(&plan, Duration::from_secs(600), Some(256));
                results.lock().unwrap().push((idx, o));
            });
        }
    });
    let mut results = results.into_inner().unwrap();
    results.sort_by_key(|r| r.0);
    for (idx, o) in results {
        let plan = sc.gen(seed, idx, tier);
        stats.evaluations += 1;
        stats.probe("isolated_cases");
        match o {
            ChildOutcome::Pass => {},
            ChildOutcome::HarnessError(e) => harness_error = Some(e),
            o => {
                let class = outcome_class(&o).unwrap();
                let detail = match o {
                    ChildOutcome::Violation(_, d) => d,
                    _ => "supervised child process died".to_string(),
                };
                let v = Violation { class: class.clone(), detail: detail.clone() };
                let key = sc.finding_key(&plan, &v);
                violations.push(FoundViolation { case: idx, class, detail, key, plan });
            },
        }
    }
    violations.sort_by_key(|v| v.case);
    ScenarioResult { stats, violations, digest, harness_error }
}

fn in_process_test(sc: &dyn Scenario, plan: &Plan) -> Option<String> {
    let mut st = Stats::default();
    run_caught(sc, plan, &mut st).err().map(|v| v.class)
}

fn is_crash_class(c: &str) -> bool {
    c.starts_with("crash.") || c.starts_with("abort.") || c == "hang"
}

fn check(prop: &str, tier: Tier) -> i32 {
    let t0 = Instant::now();
    let seed = seed_from_env();
    println!("VERIF_SEED={} property={} tier={}", seed, prop, tier.name());
    if prop == "C20" {
        return crate::configs::check(prop, tier == Tier::Thorough, seed);
    }
    crate::subjects::catalogue();
    let scenarios = scn::for_property(prop);
    if scenarios.is_empty() {
        eprintln!("no scenario registered for property {prop}");
        return 2;
    }
    let known = load_known_findings();
    let nworkers = workers_from_env();
    let mut all_stats = Stats::default();
    let mut exit = 0;
    let mut n_viol = 0u64;
    let mut known_hit: BTreeMap<String, u64> = BTreeMap::new();
    let mut reported: Vec<serde_json::Value> = Vec::new();
    let mut digests = Vec::new();
    for sc in &scenarios {
        let r = run_scenario(*sc, tier, seed, nworkers);
        if let Some(e) = r.harness_error {
            eprintln!("HARNESS-ERROR: {}", e);
            return 2;
        }
        digests.push(format!("{}:{:016x}", sc.name(), r.digest));
        all_stats.merge(r.stats);
        // group by key; report the first of each
        let mut seen: BTreeMap<String, u32> = BTreeMap::new();
        for fv in r.violations {
            let cnt = seen.entry(fv.key.clone()).or_insert(0);
            *cnt += 1;
            if *cnt > 1 {
                continue;
            }
            // known finding?
            let subject = fv.plan.subject.clone();
            if let Some(k) = known.iter().find(|k| k.property == sc.property() && k.subject == subject && k.class == fv.class) {
                *known_hit.entry(format!("{} | {}", k.subject, k.class)).or_insert(0) += 1;
                println!("KNOWN-FINDING: property={} subject={} class={} {}", sc.property(), k.subject, k.class, k.text);
                continue;
            }
            if seen.len() > 8 {
                continue;
            }
            n_viol += 1;
            exit = 1;
            // minimise
            let class = fv.class.clone();
            let mut fv = fv;
            if !is_crash_class(&class) {
                if let Some(np) = sc.narrow(&fv.plan, &Violation { class: class.clone(), detail: fv.detail.clone() }) {
                    let mut st = Stats::default();
                    if let Err(v2) = run_caught(*sc, &np, &mut st) {
                        if v2.class == class {
                            fv.plan = np;
                            fv.detail = v2.detail;
                        }
                    }
                }
            }
            if class.ends_with(".worker_share") {
                let rdir = verif_dir().join("replays");
                let _ = std::fs::create_dir_all(&rdir);
                let rfile = rdir.join(format!("{}-{}-{}-share{}.json", sc.property(), sc.name(), seed, fv.case));
                let rep = Replay { property: sc.property().to_string(), seed, scenario: sc.name().to_string(), case: fv.case, class: class.clone(), detail: fv.detail.clone(), minimised: false, shrink_steps: 0, plan: fv.plan.clone(), trace: vec![] };
                if std::fs::write(&rfile, serde_json::to_string_pretty(&rep).unwrap()).is_err() {
                    eprintln!("HARNESS-ERROR: cannot write replay file");
                    return 2;
                }
                println!("VIOLATION property={} replay={}", sc.property(), rfile.display());
                println!("  class={} seed={} detail={}", class, seed, fv.detail);
                reported.push(json!({"class": class, "case": fv.case, "replay": rfile.display().to_string(), "detail": fv.detail}));
                continue;
            }
            let no_shrink = std::env::var("SCALESIM_NO_SHRINK").is_ok();
            let (minplan, steps) = if no_shrink {
                (fv.plan.clone(), 0)
            } else if is_crash_class(&class) {
                let mut test = |p: &Plan| outcome_class(&run_plan_in_child_caps(p, Duration::from_secs(120), Some(256)));
                // confirm first
                if test(&fv.plan).as_deref() != Some(class.as_str()) {
                    // depends on the process history (heap layout): report unminimised, the
                    // replay executes the case after its predecessors of the same worker share
                    println!("note: crash of case {} does not reproduce in a fresh single-case process; reporting the unminimised case", fv.case);
                    (fv.plan.clone(), 0)
                } else {
                    minimise(&fv.plan, &class, &mut test, 40)
                }
            } else {
                let mut test = |p: &Plan| in_process_test(*sc, p);
                minimise(&fv.plan, &class, &mut test, 3000)
            };
            // replay file
            let rdir = verif_dir().join("replays");
            let _ = std::fs::create_dir_all(&rdir);
            let rfile = rdir.join(format!("{}-{}-{}-{}.json", sc.property(), sc.name(), seed, fv.case));
            let mut tr = Vec::new();
            if !is_crash_class(&class) {
                let mut st = Stats::default();
                let _ = run_caught(*sc, &minplan, &mut st);
                tr = st.samples.iter().map(|s| s.to_string()).collect();
            }
            let rep = Replay {
                property: sc.property().to_string(),
                seed,
                scenario: sc.name().to_string(),
                case: fv.case,
                class: class.clone(),
                detail: fv.detail.clone(),
                minimised: true,
                shrink_steps: steps,
                plan: minplan,
                trace: tr,
            };
            if std::fs::write(&rfile, serde_json::to_string_pretty(&rep).unwrap()).is_err() {
                eprintln!("HARNESS-ERROR: cannot write replay file");
                return 2;
            }
            // the replay must reproduce the same class in a fresh process
            let again = run_file_in_child(&rfile, Duration::from_secs(600));
            if outcome_class(&again).as_deref() != Some(class.as_str()) && !is_crash_class(&class) {
                eprintln!("HARNESS-ERROR: replay of {} gave {:?}, expected class {}", rfile.display(), again, class);
                return 2;
            }
            println!("VIOLATION property={} replay={}", sc.property(), rfile.display());
            println!("  class={} case={} seed={} shrink_steps={} detail={}", class, fv.case, seed, steps, fv.detail);
            reported.push(json!({"class": class, "case": fv.case, "replay": rfile.display().to_string(), "detail": fv.detail}));
        }
    }
    // evidence
    let wall = t0.elapsed().as_secs_f64();
    let sc0 = scenarios[0];
    let mut evaluations = all_stats.evaluations;
    let mut distinct = all_stats.sigs.len() as u64;
    if evaluations == 0 || distinct < 2 {
        if n_viol == 0 {
            eprintln!("HARNESS-ERROR: nothing explored (evaluations={evaluations}, distinct={distinct})");
            return 2;
        }
        // every worker died on a violating case before it could report statistics: the located
        // and re-executed violating cases are what was explored
        evaluations = evaluations.max(n_viol);
        distinct = distinct.max(n_viol);
    }
    let runs_per_hour = (all_stats.sub_runs.max(evaluations) as f64 / wall.max(0.001) * 3600.0) as u64;
    let mut rules: Vec<String> = scenarios.iter().map(|s| format!("[{}] {}", s.name(), s.rule())).collect();
    rules.push("distinct_nontrivial = number of distinct run signatures (hash of subject, source/sink stack, run-length-collapsed sequence of seam event kinds with bucketed sizes, set of fault kinds that fired, outcome class) over sub-runs in which a fault fired or more than one seam call occurred".to_string());
    let mut assumptions: Vec<String> = vec![
        "sampling, not proof: a clean batch is evidence only (complete enumerations are listed under exhaustive_parts)".into(),
        "the type universe is the fixed subject catalogue of /verif/sim/src/subjects.rs".into(),
        "little-endian 64-bit target; big-endian branches of the library are dead here".into(),
        "no clock exists in the library: simulated time is logical (sim_steps = number of seam events)".into(),
    ];
    for s in &scenarios {
        assumptions.extend(s.assumptions());
    }
    let ev = json!({
        "property_id": prop,
        "tier": tier.name(),
        "seed": seed,
        "level": sc0.level(),
        "coverage": {
            "evaluations": evaluations,
            "distinct_nontrivial": distinct,
            "rule": rules.join(" || "),
            "samples": all_stats.samples,
            "exhaustive": scenarios.iter().all(|s| s.exhaustive()),
            "exhaustive_parts": all_stats.exhaustive_parts,
            "sub_runs": all_stats.sub_runs,
            "nontrivial_sub_runs": all_stats.nontrivial,
            "sim_steps": all_stats.steps,
            "simulated_time": "logical only: sim_steps seam events (the library has no clock)",
            "runs_per_hour": runs_per_hour,
            "seeds": 1,
            "seeds_per_hour": (3600.0 / wall.max(0.001)) as u64,
            "faults_fired": all_stats.fired,
            "probes": all_stats.probes,
            "skipped": all_stats.skipped,
            "known_findings_hit": known_hit,
            "violations_reported": reported,
            "scenario_digests": digests,
            "workers": nworkers,
            "components": {
                "real": ["parity-scale-codec (all of src/)", "parity-scale-codec-derive expansions for the catalogue types", "std collections", "bitvec", "bytes", "generic-array", "arrayvec", "byte-slice-cast"],
                "simulated": ["SimInput (Input)", "SimRead (io::Read)", "SimWrite (io::Write)", "ChunkSink/PlainSink (Output)", "wire/disk bytes with storage faults", "accounting global allocator", "instrumented element types", "reference SCALE model (oracle)"]
            }
        },
        "assumptions": assumptions,
        "wall_s": wall,
        "violations": n_viol,
    });
    let edir = verif_dir().join("evidence");
    let _ = std::fs::create_dir_all(&edir);
    if std::fs::write(edir.join(format!("{}.json", prop)), serde_json::to_string_pretty(&ev).unwrap()).is_err() {
        eprintln!("HARNESS-ERROR: cannot write evidence");
        return 2;
    }
    println!(
        "{} {} tier={} evaluations={} sub_runs={} distinct_nontrivial={} sim_steps={} violations={} known_findings={} wall={:.1}s",
        if exit == 0 { "OK" } else { "FAIL" },
        prop,
        tier.name(),
        evaluations,
        all_stats.sub_runs,
        distinct,
        all_stats.steps,
        n_viol,
        known_hit.values().sum::<u64>(),
        wall
    );
    exit
}

// ------------------------------------------------------------------------------------------
// replay

fn replay(file: &str) -> i32 {
    let txt = match std::fs::read_to_string(file) {
        Ok(t) => t,
        Err(e) => {
            eprintln!("cannot read {file}: {e}");
            return 2;
        },
    };
    if txt.contains("\"scenario\": \"configs\"") {
        return crate::configs::replay(&txt, file);
    }
    let rep: Replay = match serde_json::from_str(&txt) {
        Ok(r) => r,
        Err(e) => {
            eprintln!("cannot parse {file}: {e}");
            return 2;
        },
    };
    println!("replaying property={} scenario={} seed={} case={} expected class={}", rep.property, rep.scenario, rep.seed, rep.case, rep.class);
    if rep.class.ends_with(".worker_share") {
        let w = rep.plan.param("fix_share_w") as u64;
        let n = rep.plan.param("fix_share_n") as u64;
        let tier = if rep.plan.param("fix_share_tier") == 1 { Tier::Thorough } else { Tier::Quick };
        let f = run_dir().join(format!("replay-share-{}.json", std::process::id()));
        let died = match spawn_worker(&rep.scenario, tier, rep.seed, w, n, &f, false, None) {
            Ok(mut c) => !c.wait().map(|s| s.success()).unwrap_or(false),
            Err(e) => {
                eprintln!("HARNESS-ERROR: {e}");
                return 2;
            },
        };
        let _ = std::fs::remove_file(&f);
        if died {
            println!("REPLAY violation class={} same_class=true (worker share {}/{} died again)", rep.class, w, n);
            println!("VIOLATION property={} replay={}", rep.property, file);
            return 1;
        }
        println!("REPLAY pass (the worker share completes on this tree)");
        return 0;
    }
    let o = run_file_in_child(std::path::Path::new(file), Duration::from_secs(900));
    match &o {
        ChildOutcome::Pass => {
            println!("REPLAY pass (the violation does not occur on this tree)");
            0
        },
        ChildOutcome::HarnessError(e) => {
            eprintln!("HARNESS-ERROR: {e}");
            2
        },
        other => {
            let c = outcome_class(other).unwrap();
            let d = if let ChildOutcome::Violation(_, d) = other { d.clone() } else { String::new() };
            println!("REPLAY violation class={} same_class={} detail={}", c, c == rep.class, d);
            println!("VIOLATION property={} replay={}", rep.property, file);
            1
        },
    }
}

// ------------------------------------------------------------------------------------------
// selftest: determinism across worker counts and processes

fn selftest() -> i32 {
    crate::subjects::catalogue();
    let seed = seed_from_env();
    let mut bad = 0;
    for sc in scn::all() {
        let mut digests = Vec::new();
        for (round, nw) in [(0u32, 1u64), (1, 16), (2, 5)] {
            // limited number of cases: emulate with the quick tier but only first 4000 cases via env
            std::env::set_var("SCALESIM_CASE_CAP", "3000");
            let r = run_scenario(sc, Tier::Quick, seed, nw);
            if let Some(e) = r.harness_error {
                eprintln!("HARNESS-ERROR: {e}");
                return 2;
            }
            // digest independent of worker layout: use statistics
            let d = format!("ev={} sub={} steps={} sigs={} nontriv={} viol={} fired={:?} probes={:?}", r.stats.evaluations, r.stats.sub_runs, r.stats.steps, r.stats.sigs.len(), r.stats.nontrivial, r.violations.len(), r.stats.fired, r.stats.probes);
            let sigsum = r.stats.sigs.iter().fold(0u64, |a, b| a.wrapping_add(*b));
            digests.push(format!("{d} sigsum={sigsum:x}"));
            let _ = round;
        }
        let same = digests.iter().all(|d| *d == digests[0]);
        println!("selftest {}: {}", sc.name(), if same { "deterministic" } else { "NONDETERMINISTIC" });
        if !same {
            for d in &digests {
                println!("   {}", d);
            }
            bad += 1;
        }
    }
    if bad > 0 {
        eprintln!("HARNESS-ERROR: nondeterminism detected");
        2
    } else {
        0
    }
}
