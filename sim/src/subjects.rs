//! The subject catalogue: concrete types whose real encode/decode code is executed, each with
//! type-erased operations so that scenarios can be written once.

use crate::model::{S, V};
use crate::modelled::Modelled;
use crate::plan::{Base, SinkKind, SinkSpec, SourceSpec};
use crate::seams::*;
use crate::types::*;
use bitvec::prelude::{BitBox, BitVec, Lsb0, Msb0};
use generic_array::{typenum, GenericArray};
use parity_scale_codec::{
    decode_from_bytes, Compact, Decode, DecodeAll, DecodeLength, DecodeLimit, DecodeWithMemLimit, DecodeWithMemTracking, Encode, OptionBool, Output,
};
use std::borrow::Cow;
use std::collections::{BTreeMap, BTreeSet, BinaryHeap, LinkedList, VecDeque};
use std::marker::PhantomData;
use std::num::*;
use std::ops::{Range, RangeInclusive};
use std::rc::Rc;
use std::sync::Arc;
use std::time::Duration;

#[derive(Clone, Copy, Debug, PartialEq, Eq)]
pub enum Mode {
    Decode,
    Skip,
    /// Two decodes of the subject one after the other through the *same* wrapper stack instance
    /// (the first result is discarded, even if it is an error).
    Twice,
    /// `T::decode_all(&mut &[u8])` (slice base only)
    DecodeAll,
    /// `T::decode_with_depth_limit(l, &mut &[u8])` directly on the slice base
    DepthDirect(u32),
    /// `T::decode_all_with_depth_limit(l, &mut &[u8])`
    DecodeAllDepth(u32),
}

pub struct EncOut {
    pub bytes: Vec<u8>,
    pub trace: Trace,
}

pub struct DecOut {
    pub res: Result<V, String>,
    /// Bytes taken from the base source.
    pub taken: usize,
    pub trace: Trace,
    pub layers: LayerReport,
    /// C12 lower bound computed from the real decoded value.
    pub payload: usize,
    pub depth_balance: Option<(i64, i64)>,
    /// Allocation accounting of the decode call itself (S5).
    pub window: crate::alloc::Window,
}

pub struct DynOut {
    pub res: Result<V, String>,
    pub layers: LayerReport,
    pub payload: usize,
    pub window: crate::alloc::Window,
}

pub struct MemOut {
    pub res: Result<V, String>,
    pub taken: usize,
    pub payload: usize,
}

pub struct Subject {
    pub name: &'static str,
    pub schema: S,
    pub encode: fn(&V, &SinkSpec) -> EncOut,
    pub encoded_size: fn(&V) -> usize,
    pub size_hint: fn(&V) -> usize,
    pub decode: fn(&[u8], &SourceSpec, Mode) -> DecOut,
    pub decode_dyn: fn(&mut dyn DynInput, &[crate::plan::Layer], Mode) -> DynOut,
    pub fixed_size: fn() -> Option<usize>,
    /// Decodes from a slice; on success returns (encoding of the decoded value, encoding of a
    /// value rebuilt from its model): "a value built by decoding" is one construction history.
    pub reencode: fn(&[u8]) -> Option<(Vec<u8>, Vec<u8>)>,
    /// `T::decode_with_mem_limit(&mut &[u8], limit)`
    pub mem_direct: Option<fn(&[u8], usize) -> MemOut>,
    pub decode_len: Option<fn(&[u8]) -> Result<usize, String>>,
    pub mem_size: usize,
    /// Collections whose elements encode to nothing but allocate per element.
    pub empty_alloc: bool,
    /// The schema contains a collection whose elements encode to nothing: a hostile count makes
    /// decoding take time (and, for `empty_alloc`, memory) proportional to the claimed count.
    pub empty_elem: bool,
    /// Big fixed-size subjects (slow to generate / decode); sampled rarely.
    pub heavy: bool,
    /// Bulk subject name -> element-wise twin subject name.
    pub twin: Option<&'static str>,
}

fn encode_op<T: Modelled + Encode + Decode>(v: &V, sink: &SinkSpec) -> EncOut {
    let t = T::from_model(v);
    match sink.kind {
        SinkKind::Owned => EncOut { bytes: t.encode(), trace: Trace::new() },
        SinkKind::ToVec => {
            let mut out: Vec<u8> = vec![0xEE, 0xDD, 0xCC];
            t.encode_to(&mut out);
            assert_eq!(&out[..3], &[0xEE, 0xDD, 0xCC], "encode_to disturbed existing bytes of the destination");
            EncOut { bytes: out[3..].to_vec(), trace: Trace::new() }
        },
        SinkKind::Chunk => {
            let mut c = ChunkSink::new();
            t.encode_to(&mut c);
            EncOut { bytes: c.out, trace: c.trace }
        },
        SinkKind::Plain => {
            let mut c = PlainSink { out: Vec::new(), trace: Trace::new() };
            t.encode_to(&mut c);
            EncOut { bytes: c.out, trace: c.trace }
        },
        SinkKind::DynChunk => {
            let mut c = ChunkSink::new();
            {
                let d: &mut dyn Output = &mut c;
                t.encode_to::<dyn Output>(d);
            }
            EncOut { bytes: c.out, trace: c.trace }
        },
        SinkKind::SimWrite => {
            let mut w = SimWrite::new(sink);
            t.encode_to(&mut w);
            EncOut { bytes: w.out, trace: w.trace }
        },
        SinkKind::Cursor => {
            let mut c = std::io::Cursor::new(Vec::<u8>::new());
            t.encode_to(&mut c);
            EncOut { bytes: c.into_inner(), trace: Trace::new() }
        },
        SinkKind::BufWriter => {
            let cap = sink.chunks.first().copied().unwrap_or(7).max(1) as usize;
            let mut w = std::io::BufWriter::with_capacity(cap, Vec::<u8>::new());
            t.encode_to(&mut w);
            EncOut { bytes: w.into_inner().expect("bufwriter flush"), trace: Trace::new() }
        },
        SinkKind::UsingEncoded => EncOut { bytes: t.using_encoded(|b| b.to_vec()), trace: Trace::new() },
        SinkKind::KeyedVec => {
            use parity_scale_codec::KeyedVec;
            let key = [0xAB, 0xCD, 0xEF];
            let out = t.to_keyed_vec(&key);
            assert_eq!(&out[..3.min(out.len())], &key[..3.min(out.len())], "to_keyed_vec does not start with the key");
            EncOut { bytes: out[3.min(out.len())..].to_vec(), trace: Trace::new() }
        },
        SinkKind::Joiner => {
            use parity_scale_codec::Joiner;
            let out: Vec<u8> = vec![0x11u8, 0x22].and(&t);
            assert_eq!(&out[..2], &[0x11, 0x22], "Joiner::and disturbed the existing bytes");
            EncOut { bytes: out[2..].to_vec(), trace: Trace::new() }
        },
    }
}

fn encoded_size_op<T: Modelled + Encode>(v: &V) -> usize {
    T::from_model(v).encoded_size()
}

fn size_hint_op<T: Modelled + Encode>(v: &V) -> usize {
    T::from_model(v).size_hint()
}

/// First 160 bytes of the error description (the chained description of a deeply nested
/// failure grows quadratically; formatting is cut off by a bounded writer).
fn err_s(e: parity_scale_codec::Error) -> String {
    struct Bounded(String);
    impl std::fmt::Write for Bounded {
        fn write_str(&mut self, s: &str) -> std::fmt::Result {
            for c in s.chars() {
                if self.0.len() >= 160 {
                    return Err(std::fmt::Error);
                }
                self.0.push(if c == '\n' || c == '\t' { ' ' } else { c });
            }
            Ok(())
        }
    }
    let mut b = Bounded(String::new());
    let _ = std::fmt::write(&mut b, format_args!("{}", e));
    b.0
}

fn decode_op<T: Modelled + Decode>(data: &[u8], src: &SourceSpec, mode: Mode) -> DecOut {
    use crate::alloc::{window_begin, window_end, Window};
    let finish = |(r, window): (Result<T, parity_scale_codec::Error>, Window), rep: SourceReport| -> DecOut {
        let (res, payload) = match r {
            Ok(t) => {
                let p = t.heap_payload();
                (Ok(t.to_model()), p)
            },
            Err(e) => (Err(err_s(e)), 0),
        };
        DecOut { res, taken: rep.taken, trace: rep.trace, layers: rep.layers, payload, depth_balance: rep.depth_balance, window }
    };
    let unit_finish = |(r, window): (Result<(), parity_scale_codec::Error>, Window), rep: SourceReport| -> DecOut {
        DecOut { res: r.map(|_| V::Unit).map_err(err_s), taken: rep.taken, trace: rep.trace, layers: rep.layers, payload: 0, depth_balance: rep.depth_balance, window }
    };
    // Runs `f` inside an allocation-accounting window.
    fn acct<R>(f: impl FnOnce() -> R) -> (R, Window) {
        window_begin();
        let r = f();
        let w = window_end();
        (r, w)
    }
    let n = effective_len(src, data.len());
    match mode {
        Mode::DecodeAll | Mode::DepthDirect(_) | Mode::DecodeAllDepth(_) => {
            let mut s: &[u8] = &data[..n];
            let r = acct(|| match mode {
                Mode::DecodeAll => T::decode_all(&mut s),
                Mode::DepthDirect(l) => T::decode_with_depth_limit(l, &mut s),
                Mode::DecodeAllDepth(l) => T::decode_all_with_depth_limit(l, &mut s),
                _ => unreachable!(),
            });
            let mut t = Trace::new();
            t.delivered = (n - s.len()) as u64;
            return finish(r, SourceReport { taken: n - s.len(), trace: t, layers: LayerReport::default(), depth_balance: None });
        },
        _ => {},
    }
    if src.base == Base::FromBytes {
        set_layers(&src.layers, true);
        let b = bytes::Bytes::from(data[..n].to_vec());
        let mk = |probe: Option<(Option<usize>, Option<usize>)>, layers: LayerReport| {
            let taken = match probe {
                Some((Some(b), Some(a))) => b - a,
                _ => usize::MAX,
            };
            SourceReport { taken, trace: Trace::new(), layers, depth_balance: None }
        };
        return match mode {
            Mode::Skip => {
                let r = acct(|| decode_from_bytes::<Cont<SkipOf<T>>>(b).map(|_| ()));
                let rep = take_layer_report();
                unit_finish(r, mk(rep.probe, rep))
            },
            _ => {
                let r = acct(|| decode_from_bytes::<Cont<DecodeOf<T>>>(b).map(|c| (c.0).0));
                let rep = take_layer_report();
                finish(r, mk(rep.probe, rep))
            },
        };
    }
    if src.base == Base::Slice && src.layers.is_empty() {
        // Monomorphic slice path: the most common way the library is used.
        let mut s: &[u8] = &data[..n];
        let mut t = Trace::new();
        return match mode {
            Mode::Skip => {
                let r = acct(|| T::skip(&mut s));
                t.delivered = (n - s.len()) as u64;
                unit_finish(r, SourceReport { taken: n - s.len(), trace: t, layers: LayerReport::default(), depth_balance: None })
            },
            _ => {
                let r = acct(|| T::decode(&mut s));
                t.delivered = (n - s.len()) as u64;
                finish(r, SourceReport { taken: n - s.len(), trace: t, layers: LayerReport::default(), depth_balance: None })
            },
        };
    }
    let (d, rep) = with_base(src, data, |inp| decode_dyn_op::<T>(inp, &src.layers, mode));
    DecOut { res: d.res, taken: rep.taken, trace: rep.trace, layers: d.layers, payload: d.payload, depth_balance: rep.depth_balance, window: d.window }
}

/// Decodes (or skips) one value from an already constructed base input, through the wrapper
/// stack `layers`.
fn decode_dyn_op<T: Modelled + Decode>(inp: &mut dyn DynInput, layers: &[crate::plan::Layer], mode: Mode) -> DynOut {
    use crate::alloc::{window_begin, window_end};
    set_layers(layers, false);
    match mode {
        Mode::Skip => {
            window_begin();
            let r = Cont::<SkipOf<T>>::decode(&mut DynAdapter(inp)).map(|_| ());
            let window = window_end();
            DynOut { res: r.map(|_| V::Unit).map_err(err_s), layers: take_layer_report(), payload: 0, window }
        },
        Mode::Twice => {
            window_begin();
            let r = Cont::<TwiceOf<T>>::decode(&mut DynAdapter(inp)).map(|c| (c.0).0);
            let window = window_end();
            let layers = take_layer_report();
            match r {
                Ok(t) => DynOut { payload: t.heap_payload(), res: Ok(t.to_model()), layers, window },
                Err(e) => DynOut { res: Err(err_s(e)), layers, payload: 0, window },
            }
        },
        _ => {
            window_begin();
            let r = Cont::<DecodeOf<T>>::decode(&mut DynAdapter(inp)).map(|c| (c.0).0);
            let window = window_end();
            let layers = take_layer_report();
            match r {
                Ok(t) => DynOut { payload: t.heap_payload(), res: Ok(t.to_model()), layers, window },
                Err(e) => DynOut { res: Err(err_s(e)), layers, payload: 0, window },
            }
        },
    }
}

fn reencode_op<T: Modelled + Encode + Decode>(data: &[u8]) -> Option<(Vec<u8>, Vec<u8>)> {
    let mut s: &[u8] = data;
    match T::decode(&mut s) {
        Ok(t) => {
            let a = t.encode();
            let rebuilt = T::from_model(&t.to_model());
            Some((a, rebuilt.encode()))
        },
        Err(_) => None,
    }
}

fn fixed_size_op<T: Decode>() -> Option<usize> {
    T::encoded_fixed_size()
}

fn mem_direct_op<T: Modelled + DecodeWithMemTracking>(data: &[u8], limit: usize) -> MemOut {
    let mut s: &[u8] = data;
    let r = T::decode_with_mem_limit(&mut s, limit);
    let taken = data.len() - s.len();
    match r {
        Ok(t) => MemOut { payload: t.heap_payload(), res: Ok(t.to_model()), taken },
        Err(e) => MemOut { res: Err(err_s(e)), taken, payload: 0 },
    }
}

fn decode_len_op<T: DecodeLength>(data: &[u8]) -> Result<usize, String> {
    T::len(data).map_err(err_s)
}

fn schema_has_empty_elem(s: &S) -> bool {
    match s {
        S::Seq(_, e, _, _) | S::Set(e) => e.is_empty() || schema_has_empty_elem(e),
        S::Map(k, v) => (k.is_empty() && v.is_empty()) || schema_has_empty_elem(k) || schema_has_empty_elem(v),
        S::Opt(e) | S::Array(_, e) | S::GArray(_, e) | S::Ptr(_, e) | S::Range(e) => schema_has_empty_elem(e),
        S::Res(a, b) => schema_has_empty_elem(a) || schema_has_empty_elem(b),
        S::Tuple(f) => f.iter().any(schema_has_empty_elem),
        S::Enum(vs) => vs.iter().any(|(_, f)| f.iter().any(schema_has_empty_elem)),
        _ => false,
    }
}

impl Subject {
    fn new<T: Modelled + Encode + Decode>(name: &'static str) -> Subject {
        Subject {
            name,
            schema: T::schema(),
            encode: encode_op::<T>,
            encoded_size: encoded_size_op::<T>,
            size_hint: size_hint_op::<T>,
            decode: decode_op::<T>,
            decode_dyn: decode_dyn_op::<T>,
            fixed_size: fixed_size_op::<T>,
            reencode: reencode_op::<T>,
            mem_direct: None,
            decode_len: None,
            mem_size: std::mem::size_of::<T>(),
            empty_alloc: false,
            empty_elem: schema_has_empty_elem(&T::schema()),
            heavy: false,
            twin: None,
        }
    }
    fn mem<T: Modelled + DecodeWithMemTracking>(mut self) -> Subject {
        self.mem_direct = Some(mem_direct_op::<T>);
        self
    }
    fn len<T: DecodeLength>(mut self) -> Subject {
        self.decode_len = Some(decode_len_op::<T>);
        self
    }
    fn empty_alloc(mut self) -> Subject {
        self.empty_alloc = true;
        self
    }
    fn heavy(mut self) -> Subject {
        self.heavy = true;
        self
    }
    fn twin(mut self, t: &'static str) -> Subject {
        self.twin = Some(t);
        self
    }
}

macro_rules! reg {
    ($list:ident; $($t:ty $([$($m:ident $(($a:expr))?),*])?;)*) => {$(
        {
            #[allow(unused_mut)]
            let mut s = Subject::new::<$t>(stringify!($t));
            $($( s = reg!(@m s, $t, $m $(($a))?); )*)?
            $list.push(s);
        }
    )*};
    (@m $s:ident, $t:ty, mem) => { $s.mem::<$t>() };
    (@m $s:ident, $t:ty, len) => { $s.len::<$t>() };
    (@m $s:ident, $t:ty, empty_alloc) => { $s.empty_alloc() };
    (@m $s:ident, $t:ty, heavy) => { $s.heavy() };
    (@m $s:ident, $t:ty, twin($a:expr)) => { $s.twin($a) };
}

type T18 = (u8, u16, u32, u64, bool, i8, i16, i32, i64, u8, Option<u8>, u16, Compact<u32>, u8, (), u8, [u8; 2], u128);

pub fn build_catalogue() -> Vec<Subject> {
    let mut l: Vec<Subject> = Vec::new();
    reg! { l;
        // primitives
        u8 [mem]; u16 [mem]; u32 [mem]; u64 [mem]; u128 [mem];
        i8 [mem]; i16 [mem]; i32 [mem]; i64 [mem]; i128 [mem];
        f32 [mem]; f64 [mem]; bool [mem]; ();
        Compact<u8> [mem]; Compact<u16> [mem]; Compact<u32> [mem]; Compact<u64> [mem]; Compact<u128> [mem]; Compact<()> [mem];
        NonZeroU8 [mem]; NonZeroU16 [mem]; NonZeroU32 [mem]; NonZeroU64 [mem]; NonZeroU128 [mem];
        NonZeroI8 [mem]; NonZeroI16 [mem]; NonZeroI32 [mem]; NonZeroI64 [mem]; NonZeroI128 [mem];
        OptionBool [mem]; Duration [mem]; Range<u32> [mem]; RangeInclusive<i16> [mem]; PhantomData<u8> [mem];
        // sums / products
        Option<u32> [mem]; Option<bool> [mem]; Option<Option<u8>> [mem]; Result<u8, String> [mem];
        (u16,) [mem]; (u8, u32) [mem]; (Compact<u64>, (bool, i16), Option<u8>) [mem]; T18 [mem];
        // bulk sequences and their element-wise twins
        Vec<u8> [mem, len, twin("Vec<Wu8>")]; Vec<u16> [mem, len, twin("Vec<Wu16>")]; Vec<u32> [mem, len, twin("Vec<Wu32>")];
        Vec<u64> [mem, len, twin("Vec<Wu64>")]; Vec<u128> [mem, len, twin("Vec<Wu128>")];
        Vec<i8> [mem, len, twin("Vec<Wi8>")]; Vec<i16> [mem, len, twin("Vec<Wi16>")]; Vec<i32> [mem, len, twin("Vec<Wi32>")];
        Vec<i64> [mem, len, twin("Vec<Wi64>")]; Vec<i128> [mem, len, twin("Vec<Wi128>")];
        Vec<f32> [mem, len, twin("Vec<Wf32>")]; Vec<f64> [mem, len, twin("Vec<Wf64>")];
        Vec<Wu8> [mem, len]; Vec<Wu16> [mem, len]; Vec<Wu32> [mem, len]; Vec<Wu64> [mem, len]; Vec<Wu128> [mem, len];
        Vec<Wi8> [mem, len]; Vec<Wi16> [mem, len]; Vec<Wi32> [mem, len]; Vec<Wi64> [mem, len]; Vec<Wi128> [mem, len];
        Vec<Wf32> [mem, len]; Vec<Wf64> [mem, len];
        VecDeque<u8> [mem, len, twin("VecDeque<Wu8>")]; VecDeque<u32> [mem, len, twin("VecDeque<Wu32>")]; VecDeque<i128> [mem, len, twin("VecDeque<Wi128>")];
        VecDeque<Wu8> [mem, len]; VecDeque<Wu32> [mem, len]; VecDeque<Wi128> [mem, len]; VecDeque<String> [mem, len];
        [u8; 0] [mem]; [u8; 4] [mem, twin("[Wu8; 4]")]; [u8; 32] [mem]; [u16; 7] [mem, twin("[Wu16; 7]")]; [u32; 5] [mem, twin("[Wu32; 5]")];
        [u128; 3] [mem, twin("[Wu128; 3]")]; [i64; 9] [mem, twin("[Wi64; 9]")]; [f64; 4] [mem, twin("[Wf64; 4]")];
        [Wu8; 4] [mem]; [Wu16; 7] [mem]; [Wu32; 5] [mem]; [Wu128; 3] [mem]; [Wi64; 9] [mem]; [Wf64; 4] [mem];
        [Duration; 2] [mem]; [OptionBool; 3] [mem]; [NonZeroU16; 2] [mem]; [Compact<u32>; 2] [mem]; [(u8, bool); 2] [mem]; [[bool; 2]; 2] [mem]; [Option<u8>; 3] [mem]; Option<Duration> [mem]; (Duration, u8) [mem];
        [bool; 3] [mem]; [String; 2] [mem]; [[u8; 3]; 2] [mem]; [Vec<u8>; 2] [mem]; [u8; 20000] [mem, heavy]; [(); 5] [mem];
        // other sequences
        Vec<bool> [mem, len]; Vec<()> [mem, len]; Vec<String> [mem, len]; Vec<Vec<u8>> [mem, len]; Vec<Option<u16>> [mem, len]; Vec<(u8, u32)> [mem, len];
        LinkedList<u16> [mem, len]; LinkedList<String> [mem, len]; BinaryHeap<u32> [mem, len];
        BTreeMap<u8, u8> [mem, len]; BTreeMap<u32, String> [mem, len]; BTreeMap<String, Vec<u16>> [mem, len];
        BTreeSet<u16> [mem, len]; BTreeSet<String> [mem, len]; BTreeSet<()> [mem, len]; BTreeMap<(), ()> [mem, len]; VecDeque<()> [mem, len];
        String [mem]; Cow<'static, str>; Cow<'static, [u8]>;
        // pointers
        Box<u32> [mem]; Box<()> [mem]; Box<Vec<u8>> [mem]; Rc<String> [mem]; Arc<[u16; 4]> [mem]; Box<[u8; 40000]> [mem, heavy];
        Box<[String; 2]> [mem]; Rc<(u8, Vec<u16>)> [mem];
        // bit sequences, bytes, generic arrays
        BitVec<u8, Lsb0> [mem]; BitVec<u8, Msb0> [mem]; BitVec<u16, Lsb0> [mem]; BitVec<u32, Msb0> [mem]; BitVec<u64, Lsb0> [mem]; BitBox<u8, Msb0> [mem];
        bytes::Bytes [mem, twin("Vec<Wu8>")]; (u8, bytes::Bytes, u16) [mem, twin("(u8, Vec<Wu8>, u16)")]; (u8, Vec<Wu8>, u16) [mem]; Vec<bytes::Bytes> [mem, len];
        GenericArray<u8, typenum::U3>; GenericArray<u16, typenum::U7>; GenericArray<String, typenum::U2>;
        // derived
        StructNamed [mem]; StructTuple [mem]; StructUnit [mem]; GenericS<u16> [mem]; GenericS<String> [mem]; WithSkip [mem]; WithCompact [mem];
        SingleCompact [mem]; SingleWithSkip [mem]; WithEncodedAs [mem]; UsesCa [mem]; Tr1 [mem]; Tr2 [mem]; Tr3 [mem]; Tr4 [mem];
        EnumData [mem]; EnumIdx [mem]; EnumDisc [mem]; EnumSkip [mem]; GenericE<u32> [mem]; GenericE<Vec<u8>> [mem];
        Tree [mem]; Chain [mem]; MarkChain [mem]; Vec<MarkChain> [mem, len];
        Vec<(Rc<()>, Vec<Vec<Vec<u8>>>)> [mem, len]; Vec<(Box<()>, Box<Box<Vec<String>>>)> [mem, len]; BTreeMap<u8, (Arc<()>, Vec<Vec<u16>>)> [mem, len];
        Unit1 [mem]; Unit9 [mem]; Vec<Unit1> [mem, len]; [Unit9; 3] [mem]; TrZ [mem]; Box<TrZ> [mem]; [TrZ; 2] [mem]; Rc<TrZ> [mem]; TrZ2 [mem]; Box<TrZ2> [mem]; [TrZ2; 2] [mem]; Vec<TrZ> [mem, len]; Option<Unit1> [mem]; (Unit1, u8, Unit9) [mem];
        Vec<Box<u32>> [mem, len]; Vec<Rc<u16>> [mem, len]; VecDeque<Arc<u64>> [mem, len]; [Box<i16>; 4] [mem]; Vec<Vec<Box<u8>>> [mem, len]; Vec<Compact<u32>> [mem, len]; Vec<Compact<u128>> [mem, len]; Vec<Duration> [mem, len]; Vec<NonZeroU32> [mem, len]; Vec<OptionBool> [mem, len]; Vec<Range<u32>> [mem, len]; BTreeMap<Compact<u32>, Vec<u8>> [mem, len]; BinaryHeap<String> [mem, len]; [Option<bytes::Bytes>; 2] [mem]; Result<Vec<u8>, Option<u16>> [mem]; Option<bytes::Bytes> [mem]; (bytes::Bytes, u32) [mem]; (bytes::Bytes, bytes::Bytes) [mem];
        TrC [mem]; TrE [mem]; TrS [mem]; Box<TrC> [mem]; [TrC; 3] [mem]; Rc<TrC> [mem]; Box<TrE> [mem]; Arc<[TrE; 2]> [mem]; [TrS; 2] [mem]; Box<TrS> [mem];
        Arc<[Tr1; 2]> [mem]; Box<Tr3> [mem]; Box<[Tr4; 2]> [mem]; Box<WithCompact> [mem]; [SingleCompact; 2] [mem]; Box<UsesCa> [mem]; [EnumSkip; 2] [mem]; Box<EnumData> [mem];
        // tuples led by a collection (DecodeLength delegates to the first member)
        (Vec<u32>, u8) [mem, len]; (BTreeMap<u8, u8>,) [mem, len]; (VecDeque<u16>, String, u8) [mem, len]; (LinkedList<u16>, u8) [mem, len]; (BTreeSet<u16>, Vec<u8>) [mem, len]; (BinaryHeap<u32>, bool) [mem, len]; (Vec<()>, u32) [mem, len];
        // more shapes
        Compact<Pct> [mem]; Vec<Compact<Pct>> [mem, len]; (u8, Compact<Pct>) [mem]; TupSkip [mem]; TupSkip2 [mem]; Vec<TupSkip> [mem, len]; [TupSkip2; 2] [mem]; Cached [mem]; [Cached; 3] [mem]; Box<[Cached; 2]> [mem]; Vec<Cached> [mem, len]; EnumMixed [mem]; Vec<EnumMixed> [mem, len]; [EnumMixed; 4] [mem];
        Box<Unit1> [mem]; Rc<Unit9> [mem]; Arc<(Unit1, Unit9)> [mem]; Vec<Box<Unit1>> [mem, len]; (Box<Unit9>, u16) [mem]; Option<Box<Unit1>> [mem]; BTreeMap<u8, Box<Unit9>> [mem, len]; Box<[Unit1; 3]> [mem];
        (BTreeMap<u8, u8>, BTreeMap<u8, u8>) [mem, len]; Vec<BTreeMap<u8, u8>> [mem, len]; (BTreeSet<u16>, Vec<String>) [mem, len]; [BTreeMap<u8, u8>; 3] [mem]; (LinkedList<u16>, LinkedList<u16>) [mem, len]; Vec<BTreeSet<u8>> [mem, len]; Vec<LinkedList<u8>> [mem, len]; (Vec<String>, Vec<String>, Box<u8>) [mem, len];
        Vec<[u16; 0]> [mem, len]; Vec<[bool; 0]> [mem, len]; VecDeque<[[u32; 4]; 0]> [mem, len]; BTreeSet<[u8; 0]> [mem, len]; LinkedList<[u64; 0]> [mem, len, empty_alloc]; Option<[u16; 0]> [mem]; Vec<(u8, [u16; 0])> [mem, len];
        Cow<'static, [u32]>; Arc<String> [mem]; Option<NonZeroU32> [mem]; Vec<NonZeroU8> [mem, len]; BTreeSet<(u8, u8)> [mem, len]; BTreeMap<String, BTreeMap<u8, u8>> [mem, len];
        LinkedList<LinkedList<u8>> [mem, len]; VecDeque<VecDeque<u16>> [mem, len]; BinaryHeap<(u8, u8)> [mem, len]; BinaryHeap<Vec<u8>> [mem, len]; Vec<Compact<u8>> [mem, len]; Result<(), ()> [mem]; Option<()> [mem]; Option<Vec<()>> [mem];
        [[u8; 0]; 3] [mem]; [u8; 1] [mem]; [u16; 1] [mem]; Box<[u8; 0]> [mem]; [f32; 5] [mem]; [i8; 6] [mem]; [u64; 2] [mem]; [i128; 2] [mem]; GenericS<EnumData> [mem]; Vec<GenericE<u32>> [mem, len]; Vec<WithCompact> [mem, len]; Vec<WithSkip> [mem, len]; BTreeMap<u8, Tr4> [mem, len];
        Box<Box<u16>> [mem]; Rc<Rc<Vec<u8>>> [mem]; Option<Option<Option<u8>>> [mem]; Vec<Result<u8, u16>> [mem, len]; (Option<u8>, Result<u16, u8>, OptionBool) [mem]; Vec<[u8; 3]> [mem, len]; Vec<[u16; 2]> [mem, len]; VecDeque<[u8; 3]> [mem, len];
        // systematic block: 10 element kinds x 8 constructors (duplicates of entries above left out)
        LinkedList<bool> [mem, len]; LinkedList<[u8; 2]> [mem, len]; LinkedList<Option<u8>> [mem, len]; LinkedList<(u8, u16)> [mem, len]; LinkedList<Unit1> [mem, len]; LinkedList<Compact<u32>> [mem, len]; LinkedList<NonZeroU16> [mem, len]; LinkedList<Vec<u8>> [mem, len];
        BTreeSet<bool> [mem, len]; BTreeSet<[u8; 2]> [mem, len]; BTreeSet<Option<u8>> [mem, len]; BTreeSet<(u8, u16)> [mem, len]; BTreeSet<Unit1> [mem, len]; BTreeSet<Compact<u32>> [mem, len]; BTreeSet<NonZeroU16> [mem, len];
        BinaryHeap<u16> [mem, len]; BinaryHeap<bool> [mem, len]; BinaryHeap<[u8; 2]> [mem, len]; BinaryHeap<Option<u8>> [mem, len]; BinaryHeap<(u8, u16)> [mem, len]; BinaryHeap<Unit1> [mem, len]; BinaryHeap<Compact<u32>> [mem, len]; BinaryHeap<NonZeroU16> [mem, len];
        Arc<Vec<u16>> [mem]; Arc<Vec<bool>> [mem]; Arc<Vec<String>> [mem]; Arc<Vec<[u8; 2]>> [mem]; Arc<Vec<Option<u8>>> [mem]; Arc<Vec<(u8, u16)>> [mem]; Arc<Vec<Unit1>> [mem]; Arc<Vec<Compact<u32>>> [mem]; Arc<Vec<NonZeroU16>> [mem]; Arc<Vec<Vec<u8>>> [mem];
        [u16; 2] [mem]; [[u8; 2]; 2] [mem]; [Option<u8>; 2] [mem]; [(u8, u16); 2] [mem]; [Unit1; 2] [mem];
        Box<[u16; 3]> [mem]; Box<[bool; 3]> [mem]; Box<[String; 3]> [mem]; Box<[[u8; 2]; 3]> [mem]; Box<[Option<u8>; 3]> [mem]; Box<[(u8, u16); 3]> [mem]; Box<[Compact<u32>; 3]> [mem]; Box<[NonZeroU16; 3]> [mem]; Box<[Vec<u8>; 3]> [mem];
        BTreeMap<u16, u8> [mem, len]; BTreeMap<bool, u8> [mem, len]; BTreeMap<String, u8> [mem, len]; BTreeMap<[u8; 2], u8> [mem, len]; BTreeMap<Option<u8>, u8> [mem, len]; BTreeMap<(u8, u16), u8> [mem, len]; BTreeMap<Unit1, u8> [mem, len]; BTreeMap<Compact<u32>, u8> [mem, len]; BTreeMap<NonZeroU16, u8> [mem, len]; BTreeMap<Vec<u8>, u8> [mem, len];
        Result<u16, Vec<u16>> [mem]; Result<bool, Vec<bool>> [mem]; Result<String, Vec<String>> [mem]; Result<[u8; 2], Vec<[u8; 2]>> [mem]; Result<Option<u8>, Vec<Option<u8>>> [mem]; Result<(u8, u16), Vec<(u8, u16)>> [mem]; Result<Unit1, Vec<Unit1>> [mem]; Result<Compact<u32>, Vec<Compact<u32>>> [mem]; Result<NonZeroU16, Vec<NonZeroU16>> [mem]; Result<Vec<u8>, Vec<Vec<u8>>> [mem];
        // nestings
        Vec<EnumData> [mem, len]; Option<Box<StructNamed>> [mem]; BTreeMap<u16, EnumIdx> [mem, len]; (Vec<u8>, Vec<u16>) [mem, len];
        Vec<Vec<Vec<u32>>> [mem, len]; Vec<Tree> [mem, len]; Box<Tr2> [mem]; Vec<Tr1> [mem, len]; LinkedList<Vec<u16>> [mem, len];
        VecDeque<Option<Box<u16>>> [mem, len]; Option<Rc<Vec<Arc<u32>>>> [mem]; BTreeSet<Vec<u8>> [mem, len];
        // elements that encode to nothing but allocate per element
        LinkedList<()> [mem, len, empty_alloc]; Vec<Box<()>> [mem, len, empty_alloc]; Vec<Rc<()>> [mem, len, empty_alloc]; Vec<AllSkipped> [mem, len, empty_alloc];
    }
    l
}

pub struct Catalogue {
    pub list: Vec<Subject>,
    pub by_name: BTreeMap<&'static str, usize>,
}

impl Catalogue {
    pub fn get(&self, name: &str) -> &Subject {
        let i = *self.by_name.get(name).unwrap_or_else(|| panic!("unknown subject {name}"));
        &self.list[i]
    }
}

static CAT: std::sync::OnceLock<Catalogue> = std::sync::OnceLock::new();

pub fn catalogue() -> &'static Catalogue {
    CAT.get_or_init(|| {
        crate::model::set_registry(crate::types::registry());
        let list = build_catalogue();
        let by_name = list.iter().enumerate().map(|(i, s)| (s.name, i)).collect();
        Catalogue { list, by_name }
    })
}
