//! Derived subject types (expansions of parity-scale-codec-derive are part of the system under
//! test) and their model bridges.

use crate::model::{PtrKind, SeqKind, S, V};
use crate::modelled::Modelled;
use parity_scale_codec::{Compact, CompactAs, Decode, DecodeWithMemTracking, Encode, HasCompact};
use std::collections::{BTreeMap, LinkedList};
use std::marker::PhantomData;
use std::mem::size_of;
use std::rc::Rc;

// ---- element-wise twins of the bulk primitives -------------------------------------------

macro_rules! twin {
    ($($name:ident($t:ty)),*) => {$(
        #[derive(Encode, Decode, DecodeWithMemTracking, Clone, Copy, Debug, PartialEq, PartialOrd, Default)]
        pub struct $name(pub $t);
        impl Modelled for $name {
            fn schema() -> S { <$t>::schema() }
            fn to_model(&self) -> V { self.0.to_model() }
            fn from_model(v: &V) -> Self { $name(<$t>::from_model(v)) }
            fn seq_to_model<'a>(items: impl Iterator<Item = &'a Self>, len: usize) -> V {
                <$t>::seq_to_model(items.map(|x| &x.0), len)
            }
            fn seq_from_model(v: &V) -> Vec<Self> {
                <$t>::seq_from_model(v).into_iter().map($name).collect()
            }
        }
    )*}
}
twin!(Wu8(u8), Wu16(u16), Wu32(u32), Wu64(u64), Wu128(u128), Wi8(i8), Wi16(i16), Wi32(i32), Wi64(i64), Wi128(i128), Wf32(f32), Wf64(f64));

// The u8 twin must model sequences as blobs too, to compare with the bulk path.
// (Vec<Wu8> -> V::Seq of V::U; comparison helpers normalise; see `norm_blob`.)

// ---- plain structs ------------------------------------------------------------------------

macro_rules! model_struct {
    ($name:ident { $($f:ident : $t:ty),* }) => {
        impl Modelled for $name {
            fn schema() -> S { S::Tuple(vec![$(<$t>::schema()),*]) }
            fn to_model(&self) -> V { V::Tuple(vec![$(self.$f.to_model()),*]) }
            #[allow(unused_assignments, unused_mut, unused_variables)]
            fn from_model(v: &V) -> Self {
                let t = v.as_tuple();
                let mut i = 0;
                $name { $($f: { let x = <$t>::from_model(&t[i]); i += 1; x }),* }
            }
            fn heap_payload(&self) -> usize { 0 $(+ self.$f.heap_payload())* }
        }
    }
}

#[derive(Encode, Decode, DecodeWithMemTracking, Clone, Debug, PartialEq)]
pub struct StructNamed {
    pub a: u32,
    pub b: Vec<u8>,
    pub c: Option<bool>,
    pub d: (u16, i64),
}
model_struct!(StructNamed { a: u32, b: Vec<u8>, c: Option<bool>, d: (u16, i64) });

#[derive(Encode, Decode, DecodeWithMemTracking, Clone, Debug, PartialEq)]
pub struct StructTuple(pub u8, pub String, pub [u16; 3]);
impl Modelled for StructTuple {
    fn schema() -> S {
        S::Tuple(vec![u8::schema(), String::schema(), <[u16; 3]>::schema()])
    }
    fn to_model(&self) -> V {
        V::Tuple(vec![self.0.to_model(), self.1.to_model(), self.2.to_model()])
    }
    fn from_model(v: &V) -> Self {
        let t = v.as_tuple();
        StructTuple(u8::from_model(&t[0]), String::from_model(&t[1]), <[u16; 3]>::from_model(&t[2]))
    }
    fn heap_payload(&self) -> usize {
        self.1.len()
    }
}

#[derive(Encode, Decode, DecodeWithMemTracking, Clone, Debug, PartialEq)]
pub struct StructUnit;
impl Modelled for StructUnit {
    const EMPTY: bool = true;
    fn schema() -> S {
        S::Tuple(vec![])
    }
    fn to_model(&self) -> V {
        V::Tuple(vec![])
    }
    fn from_model(_: &V) -> Self {
        StructUnit
    }
}

#[derive(Encode, Decode, DecodeWithMemTracking, Clone, Debug, PartialEq)]
pub struct GenericS<T> {
    pub x: T,
    pub y: Vec<T>,
}
impl<T: Modelled> Modelled for GenericS<T> {
    fn schema() -> S {
        S::Tuple(vec![T::schema(), <Vec<T>>::schema()])
    }
    fn to_model(&self) -> V {
        V::Tuple(vec![self.x.to_model(), self.y.to_model()])
    }
    fn from_model(v: &V) -> Self {
        let t = v.as_tuple();
        GenericS { x: T::from_model(&t[0]), y: <Vec<T>>::from_model(&t[1]) }
    }
    fn heap_payload(&self) -> usize {
        self.x.heap_payload() + self.y.heap_payload()
    }
}

#[derive(Encode, Decode, DecodeWithMemTracking, Clone, Debug, PartialEq)]
pub struct WithSkip {
    pub a: u16,
    #[codec(skip)]
    pub s: u32,
    pub b: u8,
}
impl Modelled for WithSkip {
    fn schema() -> S {
        S::Tuple(vec![u16::schema(), S::Skipped(V::U(0)), u8::schema()])
    }
    fn to_model(&self) -> V {
        V::Tuple(vec![self.a.to_model(), self.s.to_model(), self.b.to_model()])
    }
    fn from_model(v: &V) -> Self {
        let t = v.as_tuple();
        WithSkip { a: u16::from_model(&t[0]), s: u32::from_model(&t[1]), b: u8::from_model(&t[2]) }
    }
}

/// All fields skipped, non-zero size: encodes to nothing but occupies memory.
#[derive(Encode, Decode, DecodeWithMemTracking, Clone, Debug, PartialEq, Default)]
pub struct AllSkipped {
    #[codec(skip)]
    pub s: u64,
}
impl Modelled for AllSkipped {
    const EMPTY: bool = true;
    fn schema() -> S {
        S::Tuple(vec![S::Skipped(V::U(0))])
    }
    fn to_model(&self) -> V {
        V::Tuple(vec![V::U(self.s as u128)])
    }
    fn from_model(v: &V) -> Self {
        AllSkipped { s: v.as_tuple()[0].as_u() as u64 }
    }
}

#[derive(Encode, Decode, DecodeWithMemTracking, Clone, Debug, PartialEq)]
pub struct WithCompact {
    #[codec(compact)]
    pub a: u32,
    #[codec(compact)]
    pub b: u128,
    pub c: u8,
}
impl Modelled for WithCompact {
    fn schema() -> S {
        S::Tuple(vec![S::Compact(4), S::Compact(16), u8::schema()])
    }
    fn to_model(&self) -> V {
        V::Tuple(vec![V::U(self.a as u128), V::U(self.b), self.c.to_model()])
    }
    fn from_model(v: &V) -> Self {
        let t = v.as_tuple();
        WithCompact { a: t[0].as_u() as u32, b: t[1].as_u(), c: u8::from_model(&t[2]) }
    }
}

/// Single non-skipped field, compact: the forwarding shape of the derive.
#[derive(Encode, Decode, DecodeWithMemTracking, Clone, Debug, PartialEq)]
pub struct SingleCompact {
    #[codec(compact)]
    pub a: u64,
}
impl Modelled for SingleCompact {
    fn schema() -> S {
        S::Tuple(vec![S::Compact(8)])
    }
    fn to_model(&self) -> V {
        V::Tuple(vec![V::U(self.a as u128)])
    }
    fn from_model(v: &V) -> Self {
        SingleCompact { a: v.as_tuple()[0].as_u() as u64 }
    }
}

#[derive(Encode, Decode, DecodeWithMemTracking, Clone, Debug, PartialEq)]
pub struct SingleWithSkip {
    #[codec(skip)]
    pub s: u8,
    pub a: Vec<u16>,
}
impl Modelled for SingleWithSkip {
    fn schema() -> S {
        S::Tuple(vec![S::Skipped(V::U(0)), <Vec<u16>>::schema()])
    }
    fn to_model(&self) -> V {
        V::Tuple(vec![self.s.to_model(), self.a.to_model()])
    }
    fn from_model(v: &V) -> Self {
        let t = v.as_tuple();
        SingleWithSkip { s: u8::from_model(&t[0]), a: <Vec<u16>>::from_model(&t[1]) }
    }
    fn heap_payload(&self) -> usize {
        self.a.heap_payload()
    }
}

#[derive(Encode, Decode, DecodeWithMemTracking, Clone, Debug, PartialEq)]
pub struct WithEncodedAs {
    #[codec(encoded_as = "<u32 as HasCompact>::Type")]
    pub a: u32,
    pub b: u16,
}
impl Modelled for WithEncodedAs {
    fn schema() -> S {
        S::Tuple(vec![S::Compact(4), u16::schema()])
    }
    fn to_model(&self) -> V {
        V::Tuple(vec![V::U(self.a as u128), self.b.to_model()])
    }
    fn from_model(v: &V) -> Self {
        let t = v.as_tuple();
        WithEncodedAs { a: t[0].as_u() as u32, b: u16::from_model(&t[1]) }
    }
}

#[derive(Encode, Decode, DecodeWithMemTracking, CompactAs, Clone, Copy, Debug, PartialEq)]
pub struct Ca(pub u32);

#[derive(Encode, Decode, DecodeWithMemTracking, Clone, Debug, PartialEq)]
pub struct UsesCa {
    #[codec(compact)]
    pub x: Ca,
    pub y: u8,
}
impl Modelled for UsesCa {
    fn schema() -> S {
        S::Tuple(vec![S::Compact(4), u8::schema()])
    }
    fn to_model(&self) -> V {
        V::Tuple(vec![V::U(self.x.0 as u128), self.y.to_model()])
    }
    fn from_model(v: &V) -> Self {
        let t = v.as_tuple();
        UsesCa { x: Ca(t[0].as_u() as u32), y: u8::from_model(&t[1]) }
    }
}

// ---- repr(transparent) newtypes ----------------------------------------------------------

#[derive(Encode, Decode, DecodeWithMemTracking, Clone, Debug, PartialEq)]
#[repr(transparent)]
pub struct Tr1(pub u64);
impl Modelled for Tr1 {
    fn schema() -> S {
        S::Tuple(vec![u64::schema()])
    }
    fn to_model(&self) -> V {
        V::Tuple(vec![self.0.to_model()])
    }
    fn from_model(v: &V) -> Self {
        Tr1(u64::from_model(&v.as_tuple()[0]))
    }
}

#[derive(Encode, Decode, DecodeWithMemTracking, Clone, Debug, PartialEq)]
#[repr(transparent)]
pub struct Tr2(pub [u8; 16]);
impl Modelled for Tr2 {
    fn schema() -> S {
        S::Tuple(vec![<[u8; 16]>::schema()])
    }
    fn to_model(&self) -> V {
        V::Tuple(vec![self.0.to_model()])
    }
    fn from_model(v: &V) -> Self {
        Tr2(<[u8; 16]>::from_model(&v.as_tuple()[0]))
    }
}

#[derive(Encode, Decode, DecodeWithMemTracking, Clone, Debug, PartialEq)]
#[repr(transparent)]
pub struct Tr3(pub u32, pub PhantomData<u8>);
impl Modelled for Tr3 {
    fn schema() -> S {
        S::Tuple(vec![u32::schema(), S::Unit])
    }
    fn to_model(&self) -> V {
        V::Tuple(vec![self.0.to_model(), V::Unit])
    }
    fn from_model(v: &V) -> Self {
        Tr3(u32::from_model(&v.as_tuple()[0]), PhantomData)
    }
}

#[derive(Encode, Decode, DecodeWithMemTracking, Clone, Debug, PartialEq)]
#[repr(transparent)]
pub struct Tr4(pub [String; 2]);
impl Modelled for Tr4 {
    fn schema() -> S {
        S::Tuple(vec![<[String; 2]>::schema()])
    }
    fn to_model(&self) -> V {
        V::Tuple(vec![self.0.to_model()])
    }
    fn from_model(v: &V) -> Self {
        Tr4(<[String; 2]>::from_model(&v.as_tuple()[0]))
    }
    fn heap_payload(&self) -> usize {
        self.0.heap_payload()
    }
}

/// Transparent newtype whose only field is compact: the derive must NOT forward `decode_into`
/// to the raw integer.
#[derive(Encode, Decode, DecodeWithMemTracking, Clone, Debug, PartialEq)]
#[repr(transparent)]
pub struct TrC(#[codec(compact)] pub u32);
impl Modelled for TrC {
    fn schema() -> S {
        S::Tuple(vec![S::Compact(4)])
    }
    fn to_model(&self) -> V {
        V::Tuple(vec![V::U(self.0 as u128)])
    }
    fn from_model(v: &V) -> Self {
        TrC(v.as_tuple()[0].as_u() as u32)
    }
}

#[derive(Encode, Decode, DecodeWithMemTracking, Clone, Debug, PartialEq)]
#[repr(transparent)]
pub struct TrE {
    #[codec(encoded_as = "<u64 as HasCompact>::Type")]
    pub a: u64,
}
impl Modelled for TrE {
    fn schema() -> S {
        S::Tuple(vec![S::Compact(8)])
    }
    fn to_model(&self) -> V {
        V::Tuple(vec![V::U(self.a as u128)])
    }
    fn from_model(v: &V) -> Self {
        TrE { a: v.as_tuple()[0].as_u() as u64 }
    }
}

/// Transparent with a skipped zero-sized sibling.
#[derive(Encode, Decode, DecodeWithMemTracking, Clone, Debug, PartialEq)]
#[repr(transparent)]
pub struct TrS(pub u16, #[codec(skip)] pub PhantomData<u32>);
impl Modelled for TrS {
    fn schema() -> S {
        S::Tuple(vec![u16::schema(), S::Skipped(V::Unit)])
    }
    fn to_model(&self) -> V {
        V::Tuple(vec![self.0.to_model(), V::Unit])
    }
    fn from_model(v: &V) -> Self {
        TrS(u16::from_model(&v.as_tuple()[0]), PhantomData)
    }
}

/// Zero-sized in memory, but one index byte on the wire.
#[derive(Encode, Decode, DecodeWithMemTracking, Clone, Copy, Debug, PartialEq, Eq, PartialOrd, Ord, Default)]
pub enum Unit1 {
    #[default]
    Only,
}
impl Modelled for Unit1 {
    fn schema() -> S {
        S::Enum(vec![(0, vec![])])
    }
    fn to_model(&self) -> V {
        V::Enum(0, vec![])
    }
    fn from_model(_: &V) -> Self {
        Unit1::Only
    }
}

/// Zero-sized in memory, index byte 9 on the wire.
#[derive(Encode, Decode, DecodeWithMemTracking, Clone, Copy, Debug, PartialEq, Default)]
pub enum Unit9 {
    #[default]
    #[codec(index = 9)]
    Only,
}
impl Modelled for Unit9 {
    fn schema() -> S {
        S::Enum(vec![(9, vec![])])
    }
    fn to_model(&self) -> V {
        V::Enum(9, vec![])
    }
    fn from_model(_: &V) -> Self {
        Unit9::Only
    }
}

/// Transparent newtype with a zero-sized field that still has a wire encoding.
#[derive(Encode, Decode, DecodeWithMemTracking, Clone, Debug, PartialEq)]
#[repr(transparent)]
pub struct TrZ(pub u32, pub Unit1);
impl Modelled for TrZ {
    fn schema() -> S {
        S::Tuple(vec![u32::schema(), Unit1::schema()])
    }
    fn to_model(&self) -> V {
        V::Tuple(vec![self.0.to_model(), self.1.to_model()])
    }
    fn from_model(v: &V) -> Self {
        TrZ(u32::from_model(&v.as_tuple()[0]), Unit1::Only)
    }
}

#[derive(Encode, Decode, DecodeWithMemTracking, Clone, Debug, PartialEq)]
#[repr(transparent)]
pub struct TrZ2(pub Unit9, pub [u16; 3], pub Unit1);
impl Modelled for TrZ2 {
    fn schema() -> S {
        S::Tuple(vec![Unit9::schema(), <[u16; 3]>::schema(), Unit1::schema()])
    }
    fn to_model(&self) -> V {
        V::Tuple(vec![self.0.to_model(), self.1.to_model(), self.2.to_model()])
    }
    fn from_model(v: &V) -> Self {
        TrZ2(Unit9::Only, <[u16; 3]>::from_model(&v.as_tuple()[1]), Unit1::Only)
    }
}

/// Hand-written CompactAs with a fallible conversion (values above 100 are rejected).
#[derive(Clone, Copy, Debug, PartialEq)]
pub struct Pct(pub u32);
impl CompactAs for Pct {
    type As = u32;
    fn encode_as(&self) -> &u32 {
        &self.0
    }
    fn decode_from(x: u32) -> Result<Self, parity_scale_codec::Error> {
        if x > 100 {
            Err("percentage above 100".into())
        } else {
            Ok(Pct(x))
        }
    }
}
impl From<Compact<Pct>> for Pct {
    fn from(x: Compact<Pct>) -> Pct {
        x.0
    }
}
impl Modelled for Compact<Pct> {
    fn schema() -> S {
        S::CompactLe(4, 100)
    }
    fn to_model(&self) -> V {
        V::U((self.0).0 as u128)
    }
    fn from_model(v: &V) -> Self {
        Compact(Pct(v.as_u() as u32))
    }
}

/// Tuple structs with a skipped field in front of / between encoded fields.
#[derive(Encode, Decode, DecodeWithMemTracking, Clone, Debug, PartialEq)]
pub struct TupSkip(#[codec(skip)] pub u8, pub u16, pub u32);
impl Modelled for TupSkip {
    fn schema() -> S {
        S::Tuple(vec![S::Skipped(V::U(0)), u16::schema(), u32::schema()])
    }
    fn to_model(&self) -> V {
        V::Tuple(vec![self.0.to_model(), self.1.to_model(), self.2.to_model()])
    }
    fn from_model(v: &V) -> Self {
        let t = v.as_tuple();
        TupSkip(u8::from_model(&t[0]), u16::from_model(&t[1]), u32::from_model(&t[2]))
    }
}
#[derive(Encode, Decode, DecodeWithMemTracking, Clone, Debug, PartialEq)]
pub struct TupSkip2(pub u8, #[codec(skip)] pub u16, pub String, pub u64);
impl Modelled for TupSkip2 {
    fn schema() -> S {
        S::Tuple(vec![u8::schema(), S::Skipped(V::U(0)), String::schema(), u64::schema()])
    }
    fn to_model(&self) -> V {
        V::Tuple(vec![self.0.to_model(), self.1.to_model(), self.2.to_model(), V::U(self.3 as u128)])
    }
    fn from_model(v: &V) -> Self {
        let t = v.as_tuple();
        TupSkip2(u8::from_model(&t[0]), u16::from_model(&t[1]), String::from_model(&t[2]), t[3].as_u() as u64)
    }
    fn heap_payload(&self) -> usize {
        self.2.len()
    }
}

/// One encoded primitive field next to a skipped field that occupies memory.
#[derive(Encode, Decode, DecodeWithMemTracking, Clone, Debug, PartialEq)]
pub struct Cached {
    pub value: u32,
    #[codec(skip)]
    pub cache: u32,
}
impl Modelled for Cached {
    fn schema() -> S {
        S::Tuple(vec![u32::schema(), S::Skipped(V::U(0))])
    }
    fn to_model(&self) -> V {
        V::Tuple(vec![self.value.to_model(), self.cache.to_model()])
    }
    fn from_model(v: &V) -> Self {
        let t = v.as_tuple();
        Cached { value: u32::from_model(&t[0]), cache: u32::from_model(&t[1]) }
    }
}

/// Field-less enum mixing an explicit discriminant with implicit positions.
#[derive(Encode, Decode, DecodeWithMemTracking, Clone, Copy, Debug, PartialEq)]
pub enum EnumMixed {
    A = 5,
    B,
    C,
    D = 9,
    E,
}
impl Modelled for EnumMixed {
    fn schema() -> S {
        // explicit discriminant where present, otherwise the position among the variants
        S::Enum(vec![(5, vec![]), (1, vec![]), (2, vec![]), (9, vec![]), (4, vec![])])
    }
    fn to_model(&self) -> V {
        V::Enum(match self { EnumMixed::A => 5, EnumMixed::B => 1, EnumMixed::C => 2, EnumMixed::D => 9, EnumMixed::E => 4 }, vec![])
    }
    fn from_model(v: &V) -> Self {
        match v {
            V::Enum(5, _) => EnumMixed::A,
            V::Enum(1, _) => EnumMixed::B,
            V::Enum(2, _) => EnumMixed::C,
            V::Enum(9, _) => EnumMixed::D,
            V::Enum(4, _) => EnumMixed::E,
            _ => panic!("modelled: EnumMixed"),
        }
    }
}

// ---- enums --------------------------------------------------------------------------------

#[derive(Encode, Decode, DecodeWithMemTracking, Clone, Debug, PartialEq)]
pub enum EnumData {
    A,
    B(u8),
    C { x: u16, y: Vec<u8> },
    D(Option<u32>, bool),
}
impl Modelled for EnumData {
    fn schema() -> S {
        S::Enum(vec![(0, vec![]), (1, vec![u8::schema()]), (2, vec![u16::schema(), <Vec<u8>>::schema()]), (3, vec![<Option<u32>>::schema(), S::Bool])])
    }
    fn to_model(&self) -> V {
        match self {
            EnumData::A => V::Enum(0, vec![]),
            EnumData::B(x) => V::Enum(1, vec![x.to_model()]),
            EnumData::C { x, y } => V::Enum(2, vec![x.to_model(), y.to_model()]),
            EnumData::D(a, b) => V::Enum(3, vec![a.to_model(), b.to_model()]),
        }
    }
    fn from_model(v: &V) -> Self {
        match v {
            V::Enum(0, _) => EnumData::A,
            V::Enum(1, f) => EnumData::B(u8::from_model(&f[0])),
            V::Enum(2, f) => EnumData::C { x: u16::from_model(&f[0]), y: <Vec<u8>>::from_model(&f[1]) },
            V::Enum(3, f) => EnumData::D(<Option<u32>>::from_model(&f[0]), bool::from_model(&f[1])),
            _ => panic!("modelled: EnumData"),
        }
    }
    fn heap_payload(&self) -> usize {
        match self {
            EnumData::C { y, .. } => y.len(),
            _ => 0,
        }
    }
}

#[derive(Encode, Decode, DecodeWithMemTracking, Clone, Debug, PartialEq)]
pub enum EnumIdx {
    #[codec(index = 5)]
    A,
    #[codec(index = 200)]
    B(u32),
    C,
    #[codec(index = 255)]
    D { z: i8 },
}
impl Modelled for EnumIdx {
    fn schema() -> S {
        // C has no attribute and no discriminant: its index is its position (2).
        S::Enum(vec![(5, vec![]), (200, vec![u32::schema()]), (2, vec![]), (255, vec![i8::schema()])])
    }
    fn to_model(&self) -> V {
        match self {
            EnumIdx::A => V::Enum(5, vec![]),
            EnumIdx::B(x) => V::Enum(200, vec![x.to_model()]),
            EnumIdx::C => V::Enum(2, vec![]),
            EnumIdx::D { z } => V::Enum(255, vec![z.to_model()]),
        }
    }
    fn from_model(v: &V) -> Self {
        match v {
            V::Enum(5, _) => EnumIdx::A,
            V::Enum(200, f) => EnumIdx::B(u32::from_model(&f[0])),
            V::Enum(2, _) => EnumIdx::C,
            V::Enum(255, f) => EnumIdx::D { z: i8::from_model(&f[0]) },
            _ => panic!("modelled: EnumIdx"),
        }
    }
}

#[derive(Encode, Decode, DecodeWithMemTracking, Clone, Copy, Debug, PartialEq)]
pub enum EnumDisc {
    A = 3,
    B = 7,
    C = 250,
}
impl Modelled for EnumDisc {
    fn schema() -> S {
        S::Enum(vec![(3, vec![]), (7, vec![]), (250, vec![])])
    }
    fn to_model(&self) -> V {
        V::Enum(*self as u8, vec![])
    }
    fn from_model(v: &V) -> Self {
        match v {
            V::Enum(3, _) => EnumDisc::A,
            V::Enum(7, _) => EnumDisc::B,
            V::Enum(250, _) => EnumDisc::C,
            _ => panic!("modelled: EnumDisc"),
        }
    }
}

#[derive(Encode, Decode, DecodeWithMemTracking, Clone, Debug, PartialEq)]
pub enum EnumSkip {
    A,
    #[codec(skip)]
    S(u8),
    B(u8),
    C {
        #[codec(skip)]
        k: u16,
        #[codec(compact)]
        v: u64,
    },
}
impl Modelled for EnumSkip {
    fn schema() -> S {
        // Indices count non-skipped variants only.
        S::Enum(vec![(0, vec![]), (1, vec![u8::schema()]), (2, vec![S::Skipped(V::U(0)), S::Compact(8)])])
    }
    fn to_model(&self) -> V {
        match self {
            EnumSkip::A => V::Enum(0, vec![]),
            EnumSkip::S(_) => panic!("modelled: skipped variant has no model"),
            EnumSkip::B(x) => V::Enum(1, vec![x.to_model()]),
            EnumSkip::C { k, v } => V::Enum(2, vec![k.to_model(), V::U(*v as u128)]),
        }
    }
    fn from_model(v: &V) -> Self {
        match v {
            V::Enum(0, _) => EnumSkip::A,
            V::Enum(1, f) => EnumSkip::B(u8::from_model(&f[0])),
            V::Enum(2, f) => EnumSkip::C { k: u16::from_model(&f[0]), v: f[1].as_u() as u64 },
            _ => panic!("modelled: EnumSkip"),
        }
    }
}

#[derive(Encode, Decode, DecodeWithMemTracking, Clone, Debug, PartialEq)]
pub enum GenericE<T> {
    None,
    One(T),
    Pair(T, T),
}
impl<T: Modelled> Modelled for GenericE<T> {
    fn schema() -> S {
        S::Enum(vec![(0, vec![]), (1, vec![T::schema()]), (2, vec![T::schema(), T::schema()])])
    }
    fn to_model(&self) -> V {
        match self {
            GenericE::None => V::Enum(0, vec![]),
            GenericE::One(a) => V::Enum(1, vec![a.to_model()]),
            GenericE::Pair(a, b) => V::Enum(2, vec![a.to_model(), b.to_model()]),
        }
    }
    fn from_model(v: &V) -> Self {
        match v {
            V::Enum(0, _) => GenericE::None,
            V::Enum(1, f) => GenericE::One(T::from_model(&f[0])),
            V::Enum(2, f) => GenericE::Pair(T::from_model(&f[0]), T::from_model(&f[1])),
            _ => panic!("modelled: GenericE"),
        }
    }
    fn heap_payload(&self) -> usize {
        match self {
            GenericE::None => 0,
            GenericE::One(a) => a.heap_payload(),
            GenericE::Pair(a, b) => a.heap_payload() + b.heap_payload(),
        }
    }
}

// ---- recursive types ----------------------------------------------------------------------

#[derive(Encode, Decode, DecodeWithMemTracking, Clone, Debug, PartialEq, Eq, PartialOrd, Ord)]
pub enum Tree {
    Leaf(u8),
    Node(Box<Tree>),
    Many(Vec<Tree>),
    Map(BTreeMap<u8, Tree>),
    List(LinkedList<Tree>),
    Shared(Rc<Tree>),
}

pub fn tree_schema() -> S {
    let t = || S::Named("Tree");
    S::Enum(vec![
        (0, vec![u8::schema()]),
        (1, vec![S::Ptr(PtrKind::Box, Box::new(t()))]),
        (2, vec![S::Seq(SeqKind::Vec, Box::new(t()), size_of::<Tree>(), false)]),
        (3, vec![S::Map(Box::new(u8::schema()), Box::new(t()))]),
        (4, vec![S::Seq(SeqKind::List, Box::new(t()), size_of::<Tree>(), false)]),
        (5, vec![S::Ptr(PtrKind::Rc, Box::new(t()))]),
    ])
}

impl Modelled for Tree {
    fn schema() -> S {
        S::Named("Tree")
    }
    fn to_model(&self) -> V {
        match self {
            Tree::Leaf(x) => V::Enum(0, vec![x.to_model()]),
            Tree::Node(b) => V::Enum(1, vec![b.to_model()]),
            Tree::Many(v) => V::Enum(2, vec![V::Seq(v.iter().map(|x| x.to_model()).collect())]),
            Tree::Map(m) => V::Enum(3, vec![V::Map(m.iter().map(|(k, v)| (k.to_model(), v.to_model())).collect())]),
            Tree::List(l) => V::Enum(4, vec![V::Seq(l.iter().map(|x| x.to_model()).collect())]),
            Tree::Shared(r) => V::Enum(5, vec![r.to_model()]),
        }
    }
    fn from_model(v: &V) -> Self {
        match v {
            V::Enum(0, f) => Tree::Leaf(u8::from_model(&f[0])),
            V::Enum(1, f) => Tree::Node(Box::new(Tree::from_model(&f[0]))),
            V::Enum(2, f) => Tree::Many(<Vec<Tree>>::from_model(&f[0])),
            V::Enum(3, f) => Tree::Map(<BTreeMap<u8, Tree>>::from_model(&f[0])),
            V::Enum(4, f) => Tree::List(<LinkedList<Tree>>::from_model(&f[0])),
            V::Enum(5, f) => Tree::Shared(Rc::new(Tree::from_model(&f[0]))),
            _ => panic!("modelled: Tree {:?}", v),
        }
    }
    fn heap_payload(&self) -> usize {
        match self {
            Tree::Leaf(_) => 0,
            Tree::Node(b) => b.heap_payload(),
            Tree::Many(v) => v.heap_payload(),
            Tree::Map(m) => m.heap_payload(),
            Tree::List(l) => l.heap_payload(),
            Tree::Shared(r) => r.heap_payload(),
        }
    }
}

#[derive(Encode, Decode, DecodeWithMemTracking, Clone, Debug, PartialEq)]
pub struct Chain(pub Option<Box<Chain>>);

pub fn chain_schema() -> S {
    S::Tuple(vec![S::Opt(Box::new(S::Ptr(PtrKind::Box, Box::new(S::Named("Chain")))))])
}

impl Modelled for Chain {
    fn schema() -> S {
        S::Named("Chain")
    }
    fn to_model(&self) -> V {
        V::Tuple(vec![V::Opt(self.0.as_ref().map(|b| Box::new(b.to_model())))])
    }
    fn from_model(v: &V) -> Self {
        match &v.as_tuple()[0] {
            V::Opt(None) => Chain(None),
            V::Opt(Some(x)) => Chain(Some(Box::new(Chain::from_model(x)))),
            _ => panic!("modelled: Chain"),
        }
    }
    fn heap_payload(&self) -> usize {
        self.0.as_ref().map_or(0, |b| b.heap_payload())
    }
}

/// Recursive type with a boxed zero-sized marker on every level.
#[derive(Encode, Decode, DecodeWithMemTracking, Clone, Debug, PartialEq)]
pub enum MarkChain {
    End,
    Link(Box<()>, Box<MarkChain>),
    Wide(Rc<()>, Vec<MarkChain>),
}

pub fn markchain_schema() -> S {
    let t = || S::Named("MarkChain");
    S::Enum(vec![
        (0, vec![]),
        (1, vec![S::Ptr(PtrKind::Box, Box::new(S::Unit)), S::Ptr(PtrKind::Box, Box::new(t()))]),
        (2, vec![S::Ptr(PtrKind::Rc, Box::new(S::Unit)), S::Seq(SeqKind::Vec, Box::new(t()), size_of::<MarkChain>(), false)]),
    ])
}

impl Modelled for MarkChain {
    fn schema() -> S {
        S::Named("MarkChain")
    }
    fn to_model(&self) -> V {
        match self {
            MarkChain::End => V::Enum(0, vec![]),
            MarkChain::Link(_, b) => V::Enum(1, vec![V::Unit, b.to_model()]),
            MarkChain::Wide(_, v) => V::Enum(2, vec![V::Unit, V::Seq(v.iter().map(|x| x.to_model()).collect())]),
        }
    }
    fn from_model(v: &V) -> Self {
        match v {
            V::Enum(0, _) => MarkChain::End,
            V::Enum(1, f) => MarkChain::Link(Box::new(()), Box::new(MarkChain::from_model(&f[1]))),
            V::Enum(2, f) => MarkChain::Wide(Rc::new(()), <Vec<MarkChain>>::from_model(&f[1])),
            _ => panic!("modelled: MarkChain"),
        }
    }
    fn heap_payload(&self) -> usize {
        match self {
            MarkChain::End => 0,
            MarkChain::Link(_, b) => b.heap_payload(),
            MarkChain::Wide(_, v) => v.heap_payload(),
        }
    }
}

pub fn registry() -> BTreeMap<&'static str, S> {
    let mut m = BTreeMap::new();
    m.insert("MarkChain", markchain_schema());
    m.insert("Tree", tree_schema());
    m.insert("Chain", chain_schema());
    m
}

#[allow(dead_code)]
fn _assert_traits() {
    fn f<T: Encode + Decode>() {}
    f::<Compact<Ca>>();
}
