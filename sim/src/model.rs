//! Reference model: an independent, deliberately naive SCALE encoder / decoder over a small
//! schema language.  Shares no code with parity-scale-codec.  See DESIGN.md Appendix A.

use crate::prng::Rng;
use serde::{Deserialize, Serialize};
use std::collections::BTreeMap;
use std::sync::OnceLock;

// ------------------------------------------------------------------------------------------
// serde helpers (u128 as decimal strings, bytes as hex, bits as "0101")

pub mod s_u128 {
    use serde::{Deserialize, Deserializer, Serializer};
    pub fn serialize<S: Serializer>(v: &u128, s: S) -> Result<S::Ok, S::Error> {
        s.serialize_str(&v.to_string())
    }
    pub fn deserialize<'de, D: Deserializer<'de>>(d: D) -> Result<u128, D::Error> {
        let s = String::deserialize(d)?;
        s.parse().map_err(serde::de::Error::custom)
    }
}
pub mod s_i128 {
    use serde::{Deserialize, Deserializer, Serializer};
    pub fn serialize<S: Serializer>(v: &i128, s: S) -> Result<S::Ok, S::Error> {
        s.serialize_str(&v.to_string())
    }
    pub fn deserialize<'de, D: Deserializer<'de>>(d: D) -> Result<i128, D::Error> {
        let s = String::deserialize(d)?;
        s.parse().map_err(serde::de::Error::custom)
    }
}
pub mod s_hex {
    use serde::{Deserialize, Deserializer, Serializer};
    pub fn serialize<S: Serializer>(v: &Vec<u8>, s: S) -> Result<S::Ok, S::Error> {
        s.serialize_str(&super::to_hex(v))
    }
    pub fn deserialize<'de, D: Deserializer<'de>>(d: D) -> Result<Vec<u8>, D::Error> {
        let s = String::deserialize(d)?;
        super::from_hex(&s).map_err(serde::de::Error::custom)
    }
}
pub mod s_bits {
    use serde::{Deserialize, Deserializer, Serializer};
    pub fn serialize<S: Serializer>(v: &Vec<bool>, s: S) -> Result<S::Ok, S::Error> {
        let t: String = v.iter().map(|b| if *b { '1' } else { '0' }).collect();
        s.serialize_str(&t)
    }
    pub fn deserialize<'de, D: Deserializer<'de>>(d: D) -> Result<Vec<bool>, D::Error> {
        let s = String::deserialize(d)?;
        Ok(s.bytes().map(|c| c == b'1').collect())
    }
}

pub fn to_hex(v: &[u8]) -> String {
    // Run-length compressed hex: "ab*1000" means 1000 times 0xab. Keeps replay files small.
    let mut out = String::new();
    let mut i = 0;
    while i < v.len() {
        let b = v[i];
        let mut j = i;
        while j < v.len() && v[j] == b {
            j += 1;
        }
        let run = j - i;
        if run >= 8 {
            if !out.is_empty() && !out.ends_with(' ') {
                out.push(' ');
            }
            out.push_str(&format!("{:02x}*{} ", b, run));
            i = j;
        } else {
            out.push_str(&format!("{:02x}", b));
            i += 1;
        }
    }
    out.trim_end().to_string()
}

pub fn from_hex(s: &str) -> Result<Vec<u8>, String> {
    let mut out = Vec::new();
    for tok in s.split_whitespace() {
        if let Some((b, n)) = tok.split_once('*') {
            let b = u8::from_str_radix(b, 16).map_err(|e| e.to_string())?;
            let n: usize = n.parse().map_err(|e: std::num::ParseIntError| e.to_string())?;
            out.extend(std::iter::repeat(b).take(n));
        } else {
            if tok.len() % 2 != 0 {
                return Err("odd hex".into());
            }
            for k in (0..tok.len()).step_by(2) {
                out.push(u8::from_str_radix(&tok[k..k + 2], 16).map_err(|e| e.to_string())?);
            }
        }
    }
    Ok(out)
}

// ------------------------------------------------------------------------------------------
// Values

#[derive(Clone, Debug, PartialEq, Eq, PartialOrd, Ord, Serialize, Deserialize)]
pub enum V {
    U(#[serde(with = "s_u128")] u128),
    I(#[serde(with = "s_i128")] i128),
    F32(u32),
    F64(u64),
    Bool(bool),
    Unit,
    Opt(Option<Box<V>>),
    Res(Result<Box<V>, Box<V>>),
    OptBool(Option<bool>),
    Seq(Vec<V>),
    /// Sequence / array of u8, string body, byte buffer.
    Blob(#[serde(with = "s_hex")] Vec<u8>),
    /// n repetitions of a value whose encoding is empty.
    Rep(u64, Box<V>),
    Map(Vec<(V, V)>),
    Bits(#[serde(with = "s_bits")] Vec<bool>),
    Tuple(Vec<V>),
    Enum(u8, Vec<V>),
}

impl V {
    pub fn as_u(&self) -> u128 {
        match self {
            V::U(x) => *x,
            _ => panic!("model: expected U, got {:?}", self),
        }
    }
    pub fn as_i(&self) -> i128 {
        match self {
            V::I(x) => *x,
            _ => panic!("model: expected I, got {:?}", self),
        }
    }
    pub fn as_tuple(&self) -> &[V] {
        match self {
            V::Tuple(x) => x,
            _ => panic!("model: expected Tuple, got {:?}", self),
        }
    }
    pub fn as_blob(&self) -> &[u8] {
        match self {
            V::Blob(x) => x,
            _ => panic!("model: expected Blob, got {:?}", self),
        }
    }
    /// Rough node count (for budgeting / reporting).
    pub fn weight(&self) -> usize {
        match self {
            V::Opt(Some(b)) => 1 + b.weight(),
            V::Res(Ok(b)) | V::Res(Err(b)) => 1 + b.weight(),
            V::Seq(v) | V::Tuple(v) | V::Enum(_, v) => 1 + v.iter().map(|x| x.weight()).sum::<usize>(),
            V::Map(v) => 1 + v.iter().map(|(a, b)| a.weight() + b.weight()).sum::<usize>(),
            V::Blob(b) => 1 + b.len() / 8,
            V::Bits(b) => 1 + b.len() / 8,
            _ => 1,
        }
    }
}

// ------------------------------------------------------------------------------------------
// Schema

#[derive(Clone, Copy, Debug, PartialEq, Eq)]
pub enum SeqKind {
    Vec,
    Deque,
    List,
    Heap,
}

#[derive(Clone, Copy, Debug, PartialEq, Eq)]
pub enum PtrKind {
    Box,
    Rc,
    Arc,
    /// Cow / reference: transparent, not heap-descending.
    Cow,
}

#[derive(Clone, Debug, PartialEq, Eq)]
pub enum S {
    UInt(u8),
    Int(u8),
    F32,
    F64,
    Bool,
    Unit,
    Compact(u8),
    /// compact of width bytes whose value must not exceed max (CompactAs with a fallible conversion)
    CompactLe(u8, u64),
    CompactUnit,
    NonZeroU(u8),
    NonZeroI(u8),
    Opt(Box<S>),
    Res(Box<S>, Box<S>),
    OptBool,
    /// kind, element, in-memory size of the element, bulk (primitive fast path) flag
    Seq(SeqKind, Box<S>, usize, bool),
    Map(Box<S>, Box<S>),
    Set(Box<S>),
    Str,
    Bytes,
    /// store width in bytes, msb0
    Bits(u8, bool),
    Array(usize, Box<S>),
    GArray(usize, Box<S>),
    Tuple(Vec<S>),
    Skipped(V),
    Enum(Vec<(u8, Vec<S>)>),
    Ptr(PtrKind, Box<S>),
    Duration,
    Range(Box<S>),
    Named(&'static str),
}

static REGISTRY: OnceLock<BTreeMap<&'static str, S>> = OnceLock::new();

pub fn set_registry(m: BTreeMap<&'static str, S>) {
    let _ = REGISTRY.set(m);
}

pub fn named(n: &str) -> &'static S {
    REGISTRY.get().and_then(|m| m.get(n)).unwrap_or_else(|| panic!("model: unknown named schema {n}"))
}

impl S {
    pub fn is_u8(&self) -> bool {
        matches!(self, S::UInt(1))
    }

    /// Encoding of every value of this schema is empty.
    pub fn is_empty(&self) -> bool {
        match self {
            S::Unit | S::CompactUnit | S::Skipped(_) => true,
            S::Tuple(f) => f.iter().all(|x| x.is_empty()),
            S::Array(n, e) | S::GArray(n, e) => *n == 0 || e.is_empty(),
            S::Ptr(_, e) => e.is_empty(),
            _ => false,
        }
    }

    /// The unique value of an always-empty schema.
    pub fn empty_value(&self) -> V {
        match self {
            S::Unit | S::CompactUnit => V::Unit,
            S::Skipped(v) => v.clone(),
            S::Tuple(f) => V::Tuple(f.iter().map(|x| x.empty_value()).collect()),
            S::Array(n, e) | S::GArray(n, e) => {
                if e.is_u8() {
                    V::Blob(vec![])
                } else if e.is_empty() {
                    V::Rep(*n as u64, Box::new(e.empty_value()))
                } else {
                    V::Seq(vec![])
                }
            },
            S::Ptr(_, e) => e.empty_value(),
            _ => panic!("model: empty_value of non-empty schema"),
        }
    }

    /// Minimal number of encoded bytes of any value.
    pub fn min_size(&self) -> usize {
        self.min_size_d(0)
    }
    fn min_size_d(&self, d: usize) -> usize {
        match self {
            S::UInt(w) | S::Int(w) | S::NonZeroU(w) | S::NonZeroI(w) => *w as usize,
            S::F32 => 4,
            S::F64 => 8,
            S::Bool | S::OptBool | S::Opt(_) | S::Compact(_) | S::CompactLe(..) => 1,
            S::Unit | S::CompactUnit | S::Skipped(_) => 0,
            S::Res(a, b) => 1 + a.min_size_d(d).min(b.min_size_d(d)),
            S::Seq(..) | S::Map(..) | S::Set(_) | S::Str | S::Bytes | S::Bits(..) => 1,
            S::Array(n, e) | S::GArray(n, e) => n * e.min_size_d(d),
            S::Tuple(f) => f.iter().map(|x| x.min_size_d(d)).sum(),
            S::Enum(vs) => 1 + vs.iter().map(|(_, f)| f.iter().map(|x| x.min_size_d(d)).sum::<usize>()).min().unwrap_or(0),
            S::Ptr(_, e) => e.min_size_d(d),
            S::Duration => 12,
            S::Range(e) => 2 * e.min_size_d(d),
            S::Named(n) => {
                if d > 3 {
                    1
                } else {
                    named(n).min_size_d(d + 1)
                }
            },
        }
    }

    pub fn contains_named(&self) -> bool {
        match self {
            S::Named(_) => true,
            S::Opt(a) | S::Seq(_, a, _, _) | S::Set(a) | S::Array(_, a) | S::GArray(_, a) | S::Ptr(_, a) | S::Range(a) => a.contains_named(),
            S::Res(a, b) | S::Map(a, b) => a.contains_named() || b.contains_named(),
            S::Tuple(f) => f.iter().any(|x| x.contains_named()),
            S::Enum(vs) => vs.iter().any(|(_, f)| f.iter().any(|x| x.contains_named())),
            _ => false,
        }
    }
}

// ------------------------------------------------------------------------------------------
// Reference encoder with annotation map

#[derive(Clone, Copy, Debug, PartialEq, Eq, Serialize, Deserialize)]
pub enum AK {
    Tag,        // bool / option / result tag byte (valid: 0,1)
    TagOptBool, // valid 0,1,2
    Count,      // compact u32 element count of seq/map/set/str/bytes
    BitsLen,    // compact u32 bit count
    Compact,    // compact integer field
    Utf8,       // string body
    Variant,    // enum index byte
    Nanos,      // 4 bytes
    NonZero,    // w bytes
    Int,        // fixed-width int / float
    Pad,        // last storage word of a bit sequence (may have padding bits)
}

#[derive(Clone, Debug)]
pub struct Ann {
    pub off: usize,
    pub len: usize,
    pub kind: AK,
    /// For Count: minimal encoded size of one element (0 = empty elements); for Compact: width in
    /// bytes; for Variant: number of valid indices.
    pub aux: u64,
    /// For Count / BitsLen: the honest count.
    pub val: u64,
    pub depth: u16,
}

pub struct Enc {
    pub out: Vec<u8>,
    pub ann: Vec<Ann>,
    pub annotate: bool,
    depth: u16,
}

pub fn compact_bytes(n: u128, out: &mut Vec<u8>) {
    if n < (1 << 6) {
        out.push((n as u8) << 2);
    } else if n < (1 << 14) {
        out.extend_from_slice(&(((n as u16) << 2) | 1).to_le_bytes());
    } else if n < (1 << 30) {
        out.extend_from_slice(&(((n as u32) << 2) | 2).to_le_bytes());
    } else {
        let mut k = 16;
        while k > 4 && (n >> ((k - 1) * 8)) == 0 {
            k -= 1;
        }
        out.push((((k - 4) as u8) << 2) | 3);
        for i in 0..k {
            out.push((n >> (8 * i)) as u8);
        }
    }
}

fn le_bytes(n: u128, w: usize, out: &mut Vec<u8>) {
    for i in 0..w {
        out.push((n >> (8 * i)) as u8);
    }
}

impl Enc {
    fn note(&mut self, off: usize, kind: AK, aux: u64, val: u64) {
        if self.annotate {
            let len = self.out.len() - off;
            self.ann.push(Ann { off, len, kind, aux, val, depth: self.depth });
        }
    }

    fn count(&mut self, n: u64, elem_min: usize) {
        assert!(n <= u32::MAX as u64, "model: count too large");
        let off = self.out.len();
        compact_bytes(n as u128, &mut self.out);
        self.note(off, AK::Count, elem_min as u64, n);
    }

    pub fn enc(&mut self, s: &S, v: &V) {
        match (s, v) {
            (S::UInt(w), V::U(x)) => {
                let off = self.out.len();
                le_bytes(*x, *w as usize, &mut self.out);
                self.note(off, AK::Int, *w as u64, 0);
            },
            (S::Int(w), V::I(x)) => {
                let off = self.out.len();
                le_bytes(*x as u128, *w as usize, &mut self.out);
                self.note(off, AK::Int, *w as u64, 0);
            },
            (S::F32, V::F32(b)) => {
                let off = self.out.len();
                self.out.extend_from_slice(&b.to_le_bytes());
                self.note(off, AK::Int, 4, 0);
            },
            (S::F64, V::F64(b)) => {
                let off = self.out.len();
                self.out.extend_from_slice(&b.to_le_bytes());
                self.note(off, AK::Int, 8, 0);
            },
            (S::Bool, V::Bool(b)) => {
                let off = self.out.len();
                self.out.push(*b as u8);
                self.note(off, AK::Tag, 0, 0);
            },
            (S::Unit, V::Unit) | (S::CompactUnit, V::Unit) => {},
            (S::Compact(w), V::U(x)) => {
                let off = self.out.len();
                compact_bytes(*x, &mut self.out);
                self.note(off, AK::Compact, *w as u64, 0);
            },
            (S::CompactLe(w, _), V::U(x)) => {
                let off = self.out.len();
                compact_bytes(*x, &mut self.out);
                self.note(off, AK::Compact, *w as u64, 0);
            },
            (S::NonZeroU(w), V::U(x)) => {
                let off = self.out.len();
                le_bytes(*x, *w as usize, &mut self.out);
                self.note(off, AK::NonZero, *w as u64, 0);
            },
            (S::NonZeroI(w), V::I(x)) => {
                let off = self.out.len();
                le_bytes(*x as u128, *w as usize, &mut self.out);
                self.note(off, AK::NonZero, *w as u64, 0);
            },
            (S::Opt(e), V::Opt(o)) => {
                let off = self.out.len();
                self.out.push(o.is_some() as u8);
                self.note(off, AK::Tag, 0, 0);
                if let Some(x) = o {
                    self.enc(e, x);
                }
            },
            (S::Res(a, b), V::Res(r)) => {
                let off = self.out.len();
                self.out.push(r.is_err() as u8);
                self.note(off, AK::Tag, 0, 0);
                match r {
                    Ok(x) => self.enc(a, x),
                    Err(x) => self.enc(b, x),
                }
            },
            (S::OptBool, V::OptBool(o)) => {
                let off = self.out.len();
                self.out.push(match o {
                    None => 0,
                    Some(true) => 1,
                    Some(false) => 2,
                });
                self.note(off, AK::TagOptBool, 0, 0);
            },
            (S::Seq(_, e, _, _), V::Blob(b)) if e.is_u8() => {
                self.count(b.len() as u64, 1);
                self.out.extend_from_slice(b);
            },
            (S::Seq(_, e, _, _), V::Rep(n, _)) => {
                assert!(e.is_empty());
                self.count(*n, 0);
            },
            (S::Seq(_, e, _, _), V::Seq(items)) => {
                self.count(items.len() as u64, e.min_size());
                self.depth += 1;
                for it in items {
                    self.enc(e, it);
                }
                self.depth -= 1;
            },
            (S::Set(e), V::Seq(items)) => {
                self.count(items.len() as u64, e.min_size());
                self.depth += 1;
                for it in items {
                    self.enc(e, it);
                }
                self.depth -= 1;
            },
            (S::Map(k, val), V::Map(items)) => {
                self.count(items.len() as u64, k.min_size() + val.min_size());
                self.depth += 1;
                for (a, b) in items {
                    self.enc(k, a);
                    self.enc(val, b);
                }
                self.depth -= 1;
            },
            (S::Str, V::Blob(b)) => {
                self.count(b.len() as u64, 1);
                let off = self.out.len();
                self.out.extend_from_slice(b);
                self.note(off, AK::Utf8, 0, 0);
            },
            (S::Bytes, V::Blob(b)) => {
                self.count(b.len() as u64, 1);
                self.out.extend_from_slice(b);
            },
            (S::Bits(w, msb), V::Bits(bits)) => {
                let off = self.out.len();
                assert!(bits.len() < (1 << 29));
                compact_bytes(bits.len() as u128, &mut self.out);
                self.note(off, AK::BitsLen, *w as u64, bits.len() as u64);
                let wb = *w as usize * 8;
                let mut last = self.out.len();
                for chunk in bits.chunks(wb) {
                    let mut word: u128 = 0;
                    for (i, b) in chunk.iter().enumerate() {
                        if *b {
                            let pos = if *msb { wb - 1 - i } else { i };
                            word |= 1 << pos;
                        }
                    }
                    last = self.out.len();
                    le_bytes(word, *w as usize, &mut self.out);
                }
                if !bits.is_empty() && bits.len() % wb != 0 {
                    self.note(last, AK::Pad, (bits.len() % wb) as u64, *msb as u64);
                }
            },
            (S::Array(n, e), V::Blob(b)) | (S::GArray(n, e), V::Blob(b)) if e.is_u8() => {
                assert_eq!(*n, b.len());
                self.out.extend_from_slice(b);
            },
            (S::Array(n, e), V::Rep(m, _)) | (S::GArray(n, e), V::Rep(m, _)) => {
                assert!(e.is_empty() && *n as u64 == *m);
            },
            (S::Array(n, e), V::Seq(items)) | (S::GArray(n, e), V::Seq(items)) => {
                assert_eq!(*n, items.len(), "model: array length");
                for it in items {
                    self.enc(e, it);
                }
            },
            (S::Tuple(f), V::Tuple(items)) => {
                assert_eq!(f.len(), items.len(), "model: tuple arity {:?} {:?}", f, items);
                for (fs, it) in f.iter().zip(items) {
                    self.enc(fs, it);
                }
            },
            (S::Skipped(_), _) => {},
            (S::Enum(vs), V::Enum(idx, fields)) => {
                let (_, fs) = vs.iter().find(|(i, _)| i == idx).expect("model: enum variant");
                let off = self.out.len();
                self.out.push(*idx);
                self.note(off, AK::Variant, vs.len() as u64, 0);
                assert_eq!(fs.len(), fields.len());
                for (f, it) in fs.iter().zip(fields) {
                    self.enc(f, it);
                }
            },
            (S::Ptr(k, e), v) => {
                if *k != PtrKind::Cow {
                    self.depth += 1;
                }
                self.enc(e, v);
                if *k != PtrKind::Cow {
                    self.depth -= 1;
                }
            },
            (S::Duration, V::Tuple(t)) => {
                le_bytes(t[0].as_u(), 8, &mut self.out);
                let off = self.out.len();
                le_bytes(t[1].as_u(), 4, &mut self.out);
                self.note(off, AK::Nanos, 0, 0);
            },
            (S::Range(e), V::Tuple(t)) => {
                self.enc(e, &t[0]);
                self.enc(e, &t[1]);
            },
            (S::Named(n), v) => self.enc(named(n), v),
            (s, v) => panic!("model: schema/value mismatch: {:?} vs {:?}", s, v),
        }
    }
}

pub fn ref_encode(s: &S, v: &V) -> Vec<u8> {
    let mut e = Enc { out: Vec::new(), ann: Vec::new(), annotate: false, depth: 0 };
    e.enc(s, v);
    e.out
}

pub fn ref_encode_ann(s: &S, v: &V) -> (Vec<u8>, Vec<Ann>) {
    let mut e = Enc { out: Vec::new(), ann: Vec::new(), annotate: true, depth: 0 };
    e.enc(s, v);
    (e.out, e.ann)
}

// ------------------------------------------------------------------------------------------
// Reference decoder

#[derive(Debug, Clone, PartialEq, Eq)]
pub enum Rej {
    Reject,
    /// The model declines to decide (nesting deeper than it is willing to follow).
    GiveUp,
}

pub const MODEL_MAX_DEPTH: usize = 3000;

pub struct Dec<'a> {
    pub inp: &'a [u8],
    pub pos: usize,
    depth: usize,
    /// Keep the wire structure: no sorting, no duplicate collapsing in maps / sets / heaps.
    raw: bool,
    /// Largest claimed count of zero-byte elements met so far (also when decoding fails later).
    pub max_empty_count: u64,
}

impl<'a> Dec<'a> {
    pub fn new(inp: &'a [u8]) -> Dec<'a> {
        Dec { inp, pos: 0, depth: 0, raw: false, max_empty_count: 0 }
    }
    /// Canonical Compact<u32> (count prefix).
    pub fn compact_u32(&mut self) -> Result<u64, Rej> {
        self.compact(4).map(|x| x as u64)
    }
    fn take(&mut self, n: usize) -> Result<&'a [u8], Rej> {
        if self.inp.len() - self.pos < n {
            return Err(Rej::Reject);
        }
        let r = &self.inp[self.pos..self.pos + n];
        self.pos += n;
        Ok(r)
    }
    fn byte(&mut self) -> Result<u8, Rej> {
        Ok(self.take(1)?[0])
    }
    fn le(&mut self, w: usize) -> Result<u128, Rej> {
        let b = self.take(w)?;
        let mut x: u128 = 0;
        for (i, y) in b.iter().enumerate() {
            x |= (*y as u128) << (8 * i);
        }
        Ok(x)
    }
    fn le_signed(&mut self, w: usize) -> Result<i128, Rej> {
        let x = self.le(w)?;
        if w == 16 {
            return Ok(x as i128);
        }
        let sh = 128 - 8 * w as u32;
        Ok(((x << sh) as i128) >> sh)
    }

    /// Canonical compact of a value fitting `w` bytes.
    fn compact(&mut self, w: usize) -> Result<u128, Rej> {
        let first = self.byte()?;
        let val: u128 = match first & 3 {
            0 => (first >> 2) as u128,
            1 => {
                let second = self.byte()?;
                let x = (((second as u16) << 8) | first as u16) >> 2;
                if x < 64 {
                    return Err(Rej::Reject);
                }
                x as u128
            },
            2 => {
                // Mode 2 needs at least 16 bits of payload to be minimal; a u8 can never use it.
                let rest = self.take(3)?;
                let x = ((first as u32) | (rest[0] as u32) << 8 | (rest[1] as u32) << 16 | (rest[2] as u32) << 24) >> 2;
                if x < (1 << 14) {
                    return Err(Rej::Reject);
                }
                x as u128
            },
            _ => {
                let k = (first >> 2) as usize + 4;
                // No value of a 1- or 2-byte integer needs the big mode; a value of k bytes
                // does not fit a narrower integer.
                if w < 4 || k > w {
                    return Err(Rej::Reject);
                }
                let x = self.le(k)?;
                // minimal: top byte non-zero, and (k == 4) value >= 2^30
                if (x >> (8 * (k - 1))) == 0 {
                    return Err(Rej::Reject);
                }
                if k == 4 && x < (1 << 30) {
                    return Err(Rej::Reject);
                }
                x
            },
        };
        if w < 16 && val >> (8 * w) != 0 {
            return Err(Rej::Reject);
        }
        Ok(val)
    }

    pub fn dec(&mut self, s: &S) -> Result<V, Rej> {
        match s {
            S::UInt(w) => Ok(V::U(self.le(*w as usize)?)),
            S::Int(w) => Ok(V::I(self.le_signed(*w as usize)?)),
            S::F32 => Ok(V::F32(self.le(4)? as u32)),
            S::F64 => Ok(V::F64(self.le(8)? as u64)),
            S::Bool => match self.byte()? {
                0 => Ok(V::Bool(false)),
                1 => Ok(V::Bool(true)),
                _ => Err(Rej::Reject),
            },
            S::Unit | S::CompactUnit => Ok(V::Unit),
            S::Compact(w) => Ok(V::U(self.compact(*w as usize)?)),
            S::CompactLe(w, max) => {
                let x = self.compact(*w as usize)?;
                if x > *max as u128 {
                    return Err(Rej::Reject);
                }
                Ok(V::U(x))
            },
            S::NonZeroU(w) => {
                let x = self.le(*w as usize)?;
                if x == 0 {
                    Err(Rej::Reject)
                } else {
                    Ok(V::U(x))
                }
            },
            S::NonZeroI(w) => {
                let x = self.le_signed(*w as usize)?;
                if x == 0 {
                    Err(Rej::Reject)
                } else {
                    Ok(V::I(x))
                }
            },
            S::Opt(e) => match self.byte()? {
                0 => Ok(V::Opt(None)),
                1 => Ok(V::Opt(Some(Box::new(self.dec(e)?)))),
                _ => Err(Rej::Reject),
            },
            S::Res(a, b) => match self.byte()? {
                0 => Ok(V::Res(Ok(Box::new(self.dec(a)?)))),
                1 => Ok(V::Res(Err(Box::new(self.dec(b)?)))),
                _ => Err(Rej::Reject),
            },
            S::OptBool => match self.byte()? {
                0 => Ok(V::OptBool(None)),
                1 => Ok(V::OptBool(Some(true))),
                2 => Ok(V::OptBool(Some(false))),
                _ => Err(Rej::Reject),
            },
            S::Seq(kind, e, _, _) => {
                let n = self.compact(4)? as u64;
                if e.is_u8() {
                    let mut b = self.take(n as usize)?.to_vec();
                    if *kind == SeqKind::Heap {
                        b.sort();
                    }
                    return Ok(V::Blob(b));
                }
                if e.is_empty() {
                    self.max_empty_count = self.max_empty_count.max(n);
                    return Ok(V::Rep(n, Box::new(e.empty_value())));
                }
                let mut items = Vec::new();
                for _ in 0..n {
                    items.push(self.dec(e)?);
                }
                if *kind == SeqKind::Heap && !self.raw {
                    items.sort();
                }
                Ok(V::Seq(items))
            },
            S::Set(e) => {
                let n = self.compact(4)? as u64;
                if e.is_empty() {
                    self.max_empty_count = self.max_empty_count.max(n);
                    if self.raw {
                        return Ok(V::Rep(n, Box::new(e.empty_value())));
                    }
                    return Ok(V::Seq(if n == 0 { vec![] } else { vec![e.empty_value()] }));
                }
                let mut items = Vec::new();
                for _ in 0..n {
                    items.push(self.dec(e)?);
                }
                if !self.raw {
                    items.sort();
                    items.dedup();
                }
                Ok(V::Seq(items))
            },
            S::Map(k, val) => {
                let n = self.compact(4)? as u64;
                if k.is_empty() && val.is_empty() {
                    self.max_empty_count = self.max_empty_count.max(n);
                    if self.raw {
                        return Ok(V::Rep(n, Box::new(V::Tuple(vec![k.empty_value(), val.empty_value()]))));
                    }
                    return Ok(V::Map(if n == 0 { vec![] } else { vec![(k.empty_value(), val.empty_value())] }));
                }
                if self.raw {
                    let mut items = Vec::new();
                    for _ in 0..n {
                        let a = self.dec(k)?;
                        let b = self.dec(val)?;
                        items.push((a, b));
                    }
                    return Ok(V::Map(items));
                }
                let mut m: BTreeMap<V, V> = BTreeMap::new();
                for _ in 0..n {
                    let a = self.dec(k)?;
                    let b = self.dec(val)?;
                    m.insert(a, b);
                }
                Ok(V::Map(m.into_iter().collect()))
            },
            S::Str => {
                let n = self.compact(4)? as usize;
                let b = self.take(n)?;
                if std::str::from_utf8(b).is_err() {
                    return Err(Rej::Reject);
                }
                Ok(V::Blob(b.to_vec()))
            },
            S::Bytes => {
                let n = self.compact(4)? as usize;
                Ok(V::Blob(self.take(n)?.to_vec()))
            },
            S::Bits(w, msb) => {
                let nbits = self.compact(4)? as usize;
                if nbits > (1 << 29) - 1 {
                    return Err(Rej::Reject);
                }
                let wb = *w as usize * 8;
                let words = (nbits + wb - 1) / wb;
                let raw = self.take(words * *w as usize)?;
                let mut bits = Vec::with_capacity(nbits);
                for i in 0..nbits {
                    let word = i / wb;
                    let j = i % wb;
                    let pos = if *msb { wb - 1 - j } else { j };
                    let byte = raw[word * *w as usize + pos / 8];
                    bits.push((byte >> (pos % 8)) & 1 == 1);
                }
                Ok(V::Bits(bits))
            },
            S::Array(n, e) | S::GArray(n, e) => {
                if e.is_u8() {
                    return Ok(V::Blob(self.take(*n)?.to_vec()));
                }
                if e.is_empty() {
                    return Ok(V::Rep(*n as u64, Box::new(e.empty_value())));
                }
                let mut items = Vec::new();
                for _ in 0..*n {
                    items.push(self.dec(e)?);
                }
                Ok(V::Seq(items))
            },
            S::Tuple(f) => {
                let mut items = Vec::with_capacity(f.len());
                for x in f {
                    items.push(self.dec(x)?);
                }
                Ok(V::Tuple(items))
            },
            S::Skipped(v) => Ok(v.clone()),
            S::Enum(vs) => {
                let idx = self.byte()?;
                let (_, fs) = vs.iter().find(|(i, _)| *i == idx).ok_or(Rej::Reject)?;
                let mut items = Vec::with_capacity(fs.len());
                for x in fs {
                    items.push(self.dec(x)?);
                }
                Ok(V::Enum(idx, items))
            },
            S::Ptr(_, e) => self.dec(e),
            S::Duration => {
                let secs = self.le(8)?;
                let nanos = self.le(4)?;
                if nanos >= 1_000_000_000 {
                    return Err(Rej::Reject);
                }
                Ok(V::Tuple(vec![V::U(secs), V::U(nanos)]))
            },
            S::Range(e) => {
                let a = self.dec(e)?;
                let b = self.dec(e)?;
                Ok(V::Tuple(vec![a, b]))
            },
            S::Named(n) => {
                self.depth += 1;
                if self.depth > MODEL_MAX_DEPTH {
                    return Err(Rej::GiveUp);
                }
                let r = self.dec(named(n));
                self.depth -= 1;
                r
            },
        }
    }
}

/// Returns the decoded value and the number of bytes consumed.
/// Like `ref_decode` but keeps the wire structure (all map pairs / set elements in wire order,
/// duplicates included): what the decoder has to walk through, as opposed to what it returns.
pub fn ref_decode_raw(s: &S, bytes: &[u8]) -> Result<(V, usize), Rej> {
    let mut d = Dec { inp: bytes, pos: 0, depth: 0, raw: true, max_empty_count: 0 };
    let v = d.dec(s)?;
    Ok((v, d.pos))
}

/// Largest claimed count of zero-byte elements the decoder meets while walking `bytes`, whether
/// or not the walk ends in a rejection (the real decoder iterates over such a count before it
/// can notice that something behind it is missing).
pub fn max_empty_count(s: &S, bytes: &[u8]) -> u64 {
    let mut d = Dec { inp: bytes, pos: 0, depth: 0, raw: true, max_empty_count: 0 };
    let _ = d.dec(s);
    d.max_empty_count
}

pub fn ref_decode(s: &S, bytes: &[u8]) -> Result<(V, usize), Rej> {
    let mut d = Dec { inp: bytes, pos: 0, depth: 0, raw: false, max_empty_count: 0 };
    let v = d.dec(s)?;
    Ok((v, d.pos))
}

// ------------------------------------------------------------------------------------------
// Depth measures for C11 (see DESIGN.md section 4, C11)

/// (d_lo, d_hi) of value `v` under schema `s`.
/// d_hi: every heap container on the deepest path (upper bound of what any implementation
/// that descends once per container would need).
/// d_lo: only containers that are *recursed through*: Box/Rc/Arc of a non-primitive target and
/// non-empty sequences/maps/sets/lists whose elements are containers or composite types.
pub fn depths(s: &S, v: &V) -> (u32, u32) {
    fn composite(s: &S) -> bool {
        match s {
            S::Named(_) | S::Enum(_) | S::Seq(..) | S::Map(..) | S::Set(_) | S::Ptr(..) => true,
            S::Tuple(f) => f.iter().any(composite),
            S::Opt(e) | S::Array(_, e) | S::GArray(_, e) | S::Range(e) => composite(e),
            S::Res(a, b) => composite(a) || composite(b),
            _ => false,
        }
    }
    fn max2(a: (u32, u32), b: (u32, u32)) -> (u32, u32) {
        (a.0.max(b.0), a.1.max(b.1))
    }
    match (s, v) {
        (S::Opt(e), V::Opt(Some(x))) => depths(e, x),
        (S::Res(a, _), V::Res(Ok(x))) => depths(a, x),
        (S::Res(_, b), V::Res(Err(x))) => depths(b, x),
        (S::Seq(_, e, _, _), V::Seq(items)) | (S::Set(e), V::Seq(items)) => {
            let inner = items.iter().fold((0, 0), |acc, x| max2(acc, depths(e, x)));
            let lo = if !items.is_empty() && composite(e) { 1 + inner.0 } else { 0 };
            (lo, 1 + inner.1)
        },
        (S::Seq(_, e, _, _), V::Rep(n, ev)) => {
            let inner = if *n > 0 { depths(e, ev) } else { (0, 0) };
            let lo = if *n > 0 && composite(e) { 1 + inner.0 } else { 0 };
            (lo, 1 + inner.1)
        },
        (S::Seq(..), _) | (S::Str, _) | (S::Bytes, _) | (S::Bits(..), _) => (0, 1),
        (S::Set(_), _) => (0, 1),
        (S::Map(k, val), V::Map(items)) => {
            let inner = items.iter().fold((0, 0), |acc, (a, b)| max2(acc, max2(depths(k, a), depths(val, b))));
            let lo = if !items.is_empty() && (composite(k) || composite(val)) { 1 + inner.0 } else { 0 };
            (lo, 1 + inner.1)
        },
        (S::Array(_, e), V::Seq(items)) | (S::GArray(_, e), V::Seq(items)) => {
            let inner = items.iter().fold((0, 0), |acc, x| max2(acc, depths(e, x)));
            // GenericArray decodes through a Vec internally but does not descend; count for d_hi only
            if matches!(s, S::GArray(..)) {
                (inner.0, inner.1 + 1)
            } else {
                inner
            }
        },
        (S::GArray(..), _) => (0, 1),
        (S::Tuple(f), V::Tuple(items)) => f.iter().zip(items).fold((0, 0), |acc, (fs, x)| max2(acc, depths(fs, x))),
        (S::Enum(vs), V::Enum(idx, fields)) => {
            let (_, fs) = vs.iter().find(|(i, _)| i == idx).unwrap();
            fs.iter().zip(fields).fold((0, 0), |acc, (f, x)| max2(acc, depths(f, x)))
        },
        (S::Ptr(k, e), x) => {
            let inner = depths(e, x);
            if *k == PtrKind::Cow {
                inner
            } else {
                let lo = if composite(e) { 1 + inner.0 } else { 0 };
                (lo, 1 + inner.1)
            }
        },
        (S::Range(e), V::Tuple(t)) => max2(depths(e, &t[0]), depths(e, &t[1])),
        (S::Named(n), x) => depths(named(n), x),
        _ => (0, 0),
    }
}

// ------------------------------------------------------------------------------------------
// Value generation (boundary biased)

pub struct Gen<'r> {
    pub rng: &'r mut Rng,
    /// Remaining element budget for the whole value.
    pub budget: usize,
    /// Allow one sequence around the 16 KiB chunk window.
    pub allow_big: bool,
    pub rec_depth: usize,
    pub max_rec: usize,
}

fn interesting_uint(rng: &mut Rng, w: usize) -> u128 {
    let bits = 8 * w as u32;
    let max: u128 = if bits == 128 { u128::MAX } else { (1u128 << bits) - 1 };
    let r = rng.below(16);
    let x = match r {
        0 => 0,
        1 => 1,
        2 => max,
        3 => max - 1,
        4 => max >> 1,
        5 => (max >> 1) + 1,
        6 => {
            // compact mode thresholds +-1
            let t = *rng.pick(&[6u32, 14, 30, 32, 40, 48, 56, 64, 72, 120]);
            let base = 1u128 << t.min(bits - 1).min(127);
            match rng.below(3) {
                0 => base - 1,
                1 => base,
                _ => base.wrapping_add(1),
            }
        },
        7 => {
            // single byte lane
            let lane = rng.below(w as u64) as u32;
            (rng.range(1, 255) as u128) << (8 * lane)
        },
        8 => rng.below(64) as u128,
        9 => rng.range(64, 16383) as u128,
        10 => rng.range(16384, (1 << 30) - 1) as u128,
        _ => rng.next128(),
    };
    x & max
}

fn gen_string(rng: &mut Rng, chars: usize) -> Vec<u8> {
    let mut s = String::new();
    for _ in 0..chars {
        let c = match rng.below(8) {
            0..=3 => rng.range(0x20, 0x7e) as u32,
            4 => rng.range(0x80, 0x7ff) as u32,
            5 => {
                let mut c = rng.range(0x800, 0xffff) as u32;
                if (0xd800..=0xdfff).contains(&c) {
                    c = 0x4e2d;
                }
                c
            },
            6 => rng.range(0x10000, 0x10ffff) as u32,
            _ => 0,
        };
        s.push(char::from_u32(c).unwrap_or('?'));
    }
    s.into_bytes()
}

impl<'r> Gen<'r> {
    pub fn new(rng: &'r mut Rng, budget: usize, allow_big: bool) -> Gen<'r> {
        Gen { rng, budget, allow_big, rec_depth: 0, max_rec: 6 }
    }

    /// Length of a sequence whose elements occupy `mem` bytes in memory (0 = unknown / ZST).
    fn seq_len(&mut self, mem: usize, elem_cost: usize) -> usize {
        let chunk = if mem == 0 { 0 } else { 16384 / mem };
        if self.allow_big && chunk > 0 && self.rng.chance(1, 3) {
            self.allow_big = false;
            let mult = self.rng.range(1, 3) as usize;
            let delta = self.rng.range(0, 2) as isize - 1;
            let n = ((chunk * mult) as isize + delta).max(0) as usize;
            if n * elem_cost.max(1) <= 70_000 {
                return n;
            }
        }
        let n = match self.rng.below(12) {
            0 | 1 => 0,
            2 | 3 => 1,
            4 => 2,
            5 => 3,
            6 => *self.rng.pick(&[63usize, 64, 65]),
            7 => self.rng.range(4, 16) as usize,
            8 => self.rng.range(16, 200) as usize,
            9 if self.budget >= 5000 => self.rng.range(2040, 6000) as usize,
            _ => self.rng.range(0, 8) as usize,
        };
        let cap = (self.budget / elem_cost.max(1)).max(if self.budget > 0 { 1 } else { 0 });
        let n = n.min(cap);
        n
    }

    fn spend(&mut self, n: usize) {
        self.budget = self.budget.saturating_sub(n);
    }

    pub fn gen(&mut self, s: &S) -> V {
        self.spend(1);
        match s {
            S::UInt(w) => V::U(interesting_uint(self.rng, *w as usize)),
            S::Int(w) => {
                let u = interesting_uint(self.rng, *w as usize);
                let w = *w as usize;
                if w == 16 {
                    V::I(u as i128)
                } else {
                    let sh = 128 - 8 * w as u32;
                    V::I(((u << sh) as i128) >> sh)
                }
            },
            S::F32 => V::F32(match self.rng.below(6) {
                0 => 0,
                1 => 0x7fc0_0000,
                2 => 0xff80_0000,
                3 => 1.5f32.to_bits(),
                _ => self.rng.next() as u32,
            }),
            S::F64 => V::F64(match self.rng.below(6) {
                0 => 0,
                1 => 0x7ff8_0000_0000_0001,
                2 => f64::NEG_INFINITY.to_bits(),
                3 => (-2.25f64).to_bits(),
                _ => self.rng.next(),
            }),
            S::Bool => V::Bool(self.rng.chance(1, 2)),
            S::Unit | S::CompactUnit => V::Unit,
            S::Compact(w) => V::U(interesting_uint(self.rng, *w as usize)),
            S::CompactLe(_, max) => V::U(match self.rng.below(4) {
                0 => 0,
                1 => *max as u128,
                _ => self.rng.below(*max + 1) as u128,
            }),
            S::NonZeroU(w) => {
                let x = interesting_uint(self.rng, *w as usize);
                V::U(if x == 0 { 1 } else { x })
            },
            S::NonZeroI(w) => {
                let v = self.gen(&S::Int(*w));
                V::I(if v.as_i() == 0 { -1 } else { v.as_i() })
            },
            S::Opt(e) => {
                if self.rng.chance(1, 3) {
                    V::Opt(None)
                } else {
                    V::Opt(Some(Box::new(self.gen(e))))
                }
            },
            S::Res(a, b) => {
                if self.rng.chance(1, 2) {
                    V::Res(Ok(Box::new(self.gen(a))))
                } else {
                    V::Res(Err(Box::new(self.gen(b))))
                }
            },
            S::OptBool => V::OptBool(match self.rng.below(3) {
                0 => None,
                1 => Some(true),
                _ => Some(false),
            }),
            S::Seq(kind, e, mem, _) => {
                if e.is_u8() {
                    let n = self.seq_len(1, 1);
                    self.spend(n / 8);
                    let mut b = vec![0u8; n];
                    let mode = self.rng.below(3);
                    for x in b.iter_mut() {
                        *x = match mode {
                            0 => self.rng.byte(),
                            1 => (self.rng.byte() % 4).wrapping_mul(85),
                            _ => 0xaa,
                        };
                    }
                    if *kind == SeqKind::Heap {
                        b.sort();
                    }
                    return V::Blob(b);
                }
                if e.is_empty() {
                    let n = match self.rng.below(8) {
                        0 => 0,
                        1 => 1,
                        2 => 63,
                        3 => 64,
                        4 => 16383,
                        5 => 16384,
                        6 => self.rng.range(0, 70000),
                        _ => self.rng.range(0, 10),
                    };
                    return V::Rep(n, Box::new(e.empty_value()));
                }
                let cost = e.min_size().max(1).min(8);
                let n = self.seq_len(*mem, cost);
                let mut items = Vec::with_capacity(n);
                let big = n > 256;
                let saved = self.budget;
                // now and then one element of a small sequence is itself large (> 2 KiB, up to
                // beyond the 16 KiB window): large items inside per-item encoded sequences
                let fat = if !big && n > 0 && self.rng.chance(1, 30) { Some(self.rng.usize_below(n)) } else { None };
                for i in 0..n {
                    if big {
                        // keep elements of big sequences tiny
                        self.budget = 2;
                    }
                    if fat == Some(i) {
                        let (b0, a0) = (self.budget, self.allow_big);
                        self.budget = 40_000;
                        self.allow_big = true;
                        items.push(self.gen(e));
                        self.budget = b0.min(200);
                        self.allow_big = a0;
                        continue;
                    }
                    items.push(self.gen(e));
                }
                if big {
                    self.budget = saved.saturating_sub(n);
                }
                if *kind == SeqKind::Heap {
                    items.sort();
                }
                V::Seq(items)
            },
            S::Set(e) => {
                if e.is_empty() {
                    return V::Seq(if self.rng.chance(1, 2) { vec![] } else { vec![e.empty_value()] });
                }
                let n = self.seq_len(0, 2);
                let mut items: Vec<V> = (0..n).map(|_| self.gen(e)).collect();
                items.sort();
                items.dedup();
                V::Seq(items)
            },
            S::Map(k, val) => {
                if k.is_empty() && val.is_empty() {
                    return V::Map(if self.rng.chance(1, 2) { vec![] } else { vec![(k.empty_value(), val.empty_value())] });
                }
                let n = self.seq_len(0, 3);
                let mut m = BTreeMap::new();
                for _ in 0..n {
                    let a = self.gen(k);
                    let b = self.gen(val);
                    m.insert(a, b);
                }
                V::Map(m.into_iter().collect())
            },
            S::Str => {
                let n = self.seq_len(1, 1);
                self.spend(n / 4);
                V::Blob(gen_string(self.rng, n.min(20_000)))
            },
            S::Bytes => {
                let n = self.seq_len(1, 1);
                self.spend(n / 8);
                V::Blob((0..n).map(|_| self.rng.byte()).collect())
            },
            S::Bits(w, _) => {
                let wb = *w as usize * 8;
                let n = match self.rng.below(10) {
                    0 => 0,
                    1 => 1,
                    2 => wb - 1,
                    3 => wb,
                    4 => wb + 1,
                    5 => 2 * wb,
                    6 => self.rng.range(0, 300) as usize,
                    7 if self.allow_big => {
                        self.allow_big = false;
                        let words = 16384 / *w as usize;
                        (words * wb) as usize + self.rng.range(0, 2 * wb as u64) as usize - wb
                    },
                    _ => self.rng.range(0, 40) as usize,
                };
                self.spend(n / 16);
                let mode = self.rng.below(3);
                V::Bits((0..n).map(|_| match mode {
                    0 => true,
                    1 => false,
                    _ => self.rng.chance(1, 2),
                }).collect())
            },
            S::Array(n, e) | S::GArray(n, e) => {
                if e.is_u8() {
                    return V::Blob((0..*n).map(|_| self.rng.byte()).collect());
                }
                if e.is_empty() {
                    return V::Rep(*n as u64, Box::new(e.empty_value()));
                }
                V::Seq((0..*n).map(|_| self.gen(e)).collect())
            },
            S::Tuple(f) => V::Tuple(f.iter().map(|x| self.gen(x)).collect()),
            S::Skipped(v) => v.clone(),
            S::Enum(vs) => {
                let exhausted = self.rec_depth >= self.max_rec || self.budget == 0;
                let cands: Vec<&(u8, Vec<S>)> = if exhausted {
                    let c: Vec<_> = vs.iter().filter(|(_, f)| !f.iter().any(|x| x.contains_named())).collect();
                    if c.is_empty() {
                        vs.iter().collect()
                    } else {
                        c
                    }
                } else {
                    vs.iter().collect()
                };
                let (idx, fs) = *self.rng.pick(&cands);
                V::Enum(*idx, fs.iter().map(|x| self.gen(x)).collect())
            },
            S::Ptr(_, e) => self.gen(e),
            S::Duration => {
                let secs = interesting_uint(self.rng, 8);
                let nanos = match self.rng.below(4) {
                    0 => 0,
                    1 => 999_999_999,
                    _ => self.rng.below(1_000_000_000),
                };
                V::Tuple(vec![V::U(secs), V::U(nanos as u128)])
            },
            S::Range(e) => V::Tuple(vec![self.gen(e), self.gen(e)]),
            S::Named(n) => {
                self.rec_depth += 1;
                let sch = named(n);
                let v = if self.rec_depth > self.max_rec + 2 {
                    // force termination: Opt -> None, Enum handled above via `exhausted`
                    match sch {
                        S::Tuple(f) if f.len() == 1 && matches!(f[0], S::Opt(_)) => V::Tuple(vec![V::Opt(None)]),
                        _ => self.gen(sch),
                    }
                } else {
                    self.gen(sch)
                };
                self.rec_depth -= 1;
                v
            },
        }
    }
}

// ------------------------------------------------------------------------------------------
// Value shrinking (used by the plan minimiser)

/// Candidate simplifications of `v` (each strictly "smaller"), schema-aware.
pub fn shrink_value(s: &S, v: &V) -> Vec<V> {
    let mut out = Vec::new();
    match (s, v) {
        (S::UInt(_), V::U(x)) | (S::Compact(_), V::U(x)) | (S::CompactLe(..), V::U(x)) => {
            if *x != 0 {
                out.push(V::U(0));
                out.push(V::U(x >> 1));
            }
        },
        (S::NonZeroU(_), V::U(x)) => {
            if *x != 1 {
                out.push(V::U(1));
            }
        },
        (S::Int(_), V::I(x)) => {
            if *x != 0 {
                out.push(V::I(0));
                out.push(V::I(x / 2));
            }
        },
        (S::F32, V::F32(x)) if *x != 0 => out.push(V::F32(0)),
        (S::F64, V::F64(x)) if *x != 0 => out.push(V::F64(0)),
        (S::Bool, V::Bool(true)) => out.push(V::Bool(false)),
        (S::Opt(e), V::Opt(Some(x))) => {
            out.push(V::Opt(None));
            for c in shrink_value(e, x) {
                out.push(V::Opt(Some(Box::new(c))));
            }
        },
        (S::Res(a, _), V::Res(Ok(x))) => {
            for c in shrink_value(a, x) {
                out.push(V::Res(Ok(Box::new(c))));
            }
        },
        (S::Res(_, b), V::Res(Err(x))) => {
            for c in shrink_value(b, x) {
                out.push(V::Res(Err(Box::new(c))));
            }
        },
        (S::Seq(_, e, _, _), V::Seq(items)) | (S::Set(e), V::Seq(items)) => {
            if !items.is_empty() {
                out.push(V::Seq(vec![]));
                if items.len() > 1 {
                    out.push(V::Seq(items[..items.len() / 2].to_vec()));
                    out.push(V::Seq(items[items.len() / 2..].to_vec()));
                    out.push(V::Seq(items[..items.len() - 1].to_vec()));
                }
                if items.len() <= 8 {
                    for (i, it) in items.iter().enumerate() {
                        for c in shrink_value(e, it).into_iter().take(3) {
                            let mut n = items.clone();
                            n[i] = c;
                            if matches!(s, S::Set(_)) || matches!(s, S::Seq(SeqKind::Heap, ..)) {
                                n.sort();
                            }
                            if matches!(s, S::Set(_)) {
                                n.dedup();
                            }
                            out.push(V::Seq(n));
                        }
                    }
                }
            }
        },
        (S::Seq(..), V::Rep(n, e)) if *n > 0 => {
            out.push(V::Rep(0, e.clone()));
            out.push(V::Rep(n / 2, e.clone()));
        },
        (_, V::Blob(b)) if matches!(s, S::Seq(..) | S::Str | S::Bytes) => {
            if !b.is_empty() {
                out.push(V::Blob(vec![]));
                out.push(V::Blob(b[..b.len() / 2].to_vec()));
                if matches!(s, S::Str) {
                    // keep UTF-8 validity
                    out.retain(|c| std::str::from_utf8(c.as_blob()).is_ok());
                    out.push(V::Blob(vec![b'a'; b.len().min(3)]));
                } else if b.iter().any(|x| *x != 0) {
                    out.push(V::Blob(vec![0; b.len()]));
                }
            }
        },
        (S::Map(k, val), V::Map(items)) => {
            if !items.is_empty() {
                out.push(V::Map(vec![]));
                if items.len() > 1 {
                    out.push(V::Map(items[..items.len() / 2].to_vec()));
                    out.push(V::Map(items[..items.len() - 1].to_vec()));
                }
                if items.len() <= 4 {
                    for (i, (_, b)) in items.iter().enumerate() {
                        for c in shrink_value(val, b).into_iter().take(2) {
                            let mut n = items.clone();
                            n[i].1 = c;
                            out.push(V::Map(n));
                        }
                    }
                }
                let _ = k;
            }
        },
        (S::Bits(..), V::Bits(b)) => {
            if !b.is_empty() {
                out.push(V::Bits(vec![]));
                out.push(V::Bits(b[..b.len() / 2].to_vec()));
                if b.iter().any(|x| *x) {
                    out.push(V::Bits(vec![false; b.len()]));
                }
            }
        },
        (S::Array(_, e), V::Seq(items)) | (S::GArray(_, e), V::Seq(items)) => {
            if items.len() <= 8 {
                for (i, it) in items.iter().enumerate() {
                    for c in shrink_value(e, it).into_iter().take(2) {
                        let mut n = items.clone();
                        n[i] = c;
                        out.push(V::Seq(n));
                    }
                }
            }
        },
        (S::Array(..), V::Blob(b)) | (S::GArray(..), V::Blob(b)) => {
            if b.iter().any(|x| *x != 0) {
                out.push(V::Blob(vec![0; b.len()]));
            }
        },
        (S::Tuple(f), V::Tuple(items)) => {
            for (i, (fs, it)) in f.iter().zip(items).enumerate() {
                for c in shrink_value(fs, it).into_iter().take(4) {
                    let mut n = items.clone();
                    n[i] = c;
                    out.push(V::Tuple(n));
                }
            }
        },
        (S::Enum(vs), V::Enum(idx, fields)) => {
            let (_, fs) = vs.iter().find(|(i, _)| i == idx).unwrap();
            for (i, (f, it)) in fs.iter().zip(fields).enumerate() {
                for c in shrink_value(f, it).into_iter().take(3) {
                    let mut n = fields.clone();
                    n[i] = c;
                    out.push(V::Enum(*idx, n));
                }
            }
            // recursive enums: replace by a sub-value of the same named type
        },
        (S::Ptr(_, e), x) => out.extend(shrink_value(e, x)),
        (S::Range(e), V::Tuple(t)) => {
            for c in shrink_value(e, &t[0]).into_iter().take(2) {
                out.push(V::Tuple(vec![c, t[1].clone()]));
            }
            for c in shrink_value(e, &t[1]).into_iter().take(2) {
                out.push(V::Tuple(vec![t[0].clone(), c]));
            }
        },
        (S::Duration, V::Tuple(t)) => {
            if t[0].as_u() != 0 || t[1].as_u() != 0 {
                out.push(V::Tuple(vec![V::U(0), V::U(0)]));
            }
        },
        (S::Named(n), x) => out.extend(shrink_value(named(n), x)),
        _ => {},
    }
    out
}
