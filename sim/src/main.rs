//! scalesim: deterministic simulation with fault injection for parity-scale-codec.
//! See /verif/DESIGN.md.

mod alloc;
mod configs;
mod driver;
mod engine;
mod model;
mod modelled;
mod plan;
mod prng;
mod scn;
mod seams;
mod subjects;
mod types;

#[global_allocator]
static GLOBAL: alloc::Acct = alloc::Acct;

/// Payload of panics injected by the simulator (distinguishable from library panics).
pub struct InjectedPanic;

pub const DEFAULT_SEED: u64 = 20261003;

fn main() {
    // Silent panic hook: panics are caught and classified by the engine.
    if std::env::var("SCALESIM_PANIC_VERBOSE").is_err() {
        std::panic::set_hook(Box::new(|_| {}));
    }
    let args: Vec<String> = std::env::args().collect();
    // Everything runs on a thread with a large stack so that neither the model nor the real
    // decoder overflow on inputs of the sizes the mass scenarios generate (<= 64 KiB).
    // Under Miri (extra oracle for the ledger scenario) everything runs on the main thread.
    if cfg!(miri) {
        std::process::exit(driver::main(args));
    }
    let child = std::thread::Builder::new().stack_size(1 << 30).spawn(move || driver::main(args)).expect("spawn main thread");
    let code = child.join().unwrap_or(2);
    std::process::exit(code);
}
