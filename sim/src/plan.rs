//! Plans: plain data describing one simulated run.  `seed -> plan` is generation,
//! `plan -> trace + verdict` is execution.  Replay files store (minimised) plans.

use crate::model::{s_hex, V};
use serde::{Deserialize, Serialize};
use std::collections::BTreeMap;

#[derive(Clone, Copy, Debug, PartialEq, Eq, Serialize, Deserialize, PartialOrd, Ord)]
pub enum Base {
    Slice,
    Cursor,
    SimRead,
    SimInput,
    FromBytes,
}

#[derive(Clone, Copy, Debug, PartialEq, Eq, Serialize, Deserialize, PartialOrd, Ord)]
pub enum Layer {
    Counted,
    Depth(u32),
    Mem(u64),
}

#[derive(Clone, Debug, PartialEq, Eq, Serialize, Deserialize)]
pub enum Fault {
    ReadErrAt { call: u32, partial: bool },
    IoErrAt { call: u32, kind: u8 },
    EofAt { byte: u32 },
    RemLenErr,
    DescendErrAt { call: u32 },
    AllocErrAt { call: u32 },
    InputPanicAt { call: u32 },
}

#[derive(Clone, Debug, PartialEq, Eq, Serialize, Deserialize)]
pub struct SourceSpec {
    pub base: Base,
    #[serde(default = "tru")]
    pub known_len: bool,
    #[serde(default = "tru")]
    pub own_read_byte: bool,
    #[serde(default)]
    pub chunks: Vec<u32>,
    #[serde(default)]
    pub eintr: Vec<u32>,
    #[serde(default)]
    pub faults: Vec<Fault>,
    /// Wrapper stack, innermost first: layers[0] wraps the base, the last layer is the one the
    /// decoder talks to (e.g. [Mem(L), Depth(D)] = decode_with_depth_limit(D, &mut MemTrackingInput::new(base, L))).
    #[serde(default)]
    pub layers: Vec<Layer>,
}

fn tru() -> bool {
    true
}

impl SourceSpec {
    pub fn slice() -> SourceSpec {
        SourceSpec { base: Base::Slice, known_len: true, own_read_byte: true, chunks: vec![], eintr: vec![], faults: vec![], layers: vec![] }
    }
    pub fn with_base(base: Base) -> SourceSpec {
        SourceSpec { base, ..SourceSpec::slice() }
    }
    pub fn describe(&self) -> String {
        format!("{:?}{}{}/{:?}", self.base, if self.known_len { "" } else { "?len" }, if self.own_read_byte { "" } else { "!rb" }, self.layers)
    }
    pub fn is_trivial(&self) -> bool {
        *self == SourceSpec::slice()
    }
}

#[derive(Clone, Copy, Debug, PartialEq, Eq, Serialize, Deserialize)]
pub enum SinkKind {
    Owned,
    ToVec,
    Chunk,
    Plain,
    DynChunk,
    SimWrite,
    Cursor,
    BufWriter,
    UsingEncoded,
    /// KeyedVec::to_keyed_vec(key) with the key stripped again
    KeyedVec,
    /// Joiner::and on a non-empty vector, prefix stripped
    Joiner,
}

#[derive(Clone, Debug, PartialEq, Eq, Serialize, Deserialize)]
pub struct SinkSpec {
    pub kind: SinkKind,
    #[serde(default)]
    pub chunks: Vec<u32>,
    #[serde(default)]
    pub eintr: Vec<u32>,
}

impl SinkSpec {
    pub fn owned() -> SinkSpec {
        SinkSpec { kind: SinkKind::Owned, chunks: vec![], eintr: vec![] }
    }
}

/// Storage fault applied to wire bytes (S8).
#[derive(Clone, Debug, PartialEq, Eq, Serialize, Deserialize)]
pub enum Mutation {
    BitFlip { pos: u32, bit: u8 },
    ByteSet { pos: u32, val: u8 },
    Truncate { len: u32 },
    Extend {
        #[serde(with = "s_hex")]
        bytes: Vec<u8>,
    },
    Duplicate { start: u32, len: u32 },
    /// Replace bytes [start, start+len) by `bytes` (count tampering, non-canonical compacts, splices)
    Replace {
        start: u32,
        len: u32,
        #[serde(with = "s_hex")]
        bytes: Vec<u8>,
    },
}

pub fn apply_mutations(orig: &[u8], muts: &[Mutation]) -> Vec<u8> {
    let mut b = orig.to_vec();
    for m in muts {
        match m {
            Mutation::BitFlip { pos, bit } => {
                if let Some(x) = b.get_mut(*pos as usize) {
                    *x ^= 1 << (bit % 8);
                }
            },
            Mutation::ByteSet { pos, val } => {
                if let Some(x) = b.get_mut(*pos as usize) {
                    *x = *val;
                }
            },
            Mutation::Truncate { len } => b.truncate(*len as usize),
            Mutation::Extend { bytes } => b.extend_from_slice(bytes),
            Mutation::Duplicate { start, len } => {
                let s = (*start as usize).min(b.len());
                let e = (s + *len as usize).min(b.len());
                let dup = b[s..e].to_vec();
                let tail = b.split_off(e);
                b.extend_from_slice(&dup);
                b.extend_from_slice(&tail);
            },
            Mutation::Replace { start, len, bytes } => {
                let s = (*start as usize).min(b.len());
                let e = (s + *len as usize).min(b.len());
                let tail = b.split_off(e);
                b.truncate(s);
                b.extend_from_slice(bytes);
                b.extend_from_slice(&tail);
            },
        }
    }
    b
}

/// One message of a multi-message stream.
#[derive(Clone, Debug, PartialEq, Serialize, Deserialize)]
pub struct Msg {
    pub subject: String,
    pub value: V,
    pub sink: SinkSpec,
}

/// Generic operation of a history (C06, C15); meaning is scenario specific.
#[derive(Clone, Debug, PartialEq, Serialize, Deserialize)]
pub struct Op {
    pub op: String,
    #[serde(default)]
    pub a: u64,
    #[serde(default)]
    pub b: u64,
    #[serde(default, skip_serializing_if = "Option::is_none")]
    pub v: Option<V>,
}

#[derive(Clone, Debug, PartialEq, Serialize, Deserialize)]
pub struct Plan {
    pub scenario: String,
    #[serde(default)]
    pub subject: String,
    #[serde(default, skip_serializing_if = "Option::is_none")]
    pub value: Option<V>,
    /// Raw wire bytes (when the run does not start from a model value).
    #[serde(default, skip_serializing_if = "Option::is_none")]
    pub bytes: Option<HexBytes>,
    #[serde(default, skip_serializing_if = "Vec::is_empty")]
    pub msgs: Vec<Msg>,
    #[serde(default)]
    pub suffix: HexBytes,
    #[serde(default, skip_serializing_if = "Vec::is_empty")]
    pub muts: Vec<Mutation>,
    #[serde(default, skip_serializing_if = "Vec::is_empty")]
    pub sources: Vec<SourceSpec>,
    #[serde(default, skip_serializing_if = "Vec::is_empty")]
    pub sinks: Vec<SinkSpec>,
    #[serde(default, skip_serializing_if = "Vec::is_empty")]
    pub ops: Vec<Op>,
    /// Scenario-specific integer parameters (limits, cut points, fault positions, modes).
    #[serde(default, skip_serializing_if = "BTreeMap::is_empty")]
    pub p: BTreeMap<String, i64>,
}

#[derive(Clone, Debug, PartialEq, Eq, Default, Serialize, Deserialize)]
pub struct HexBytes(#[serde(with = "s_hex")] pub Vec<u8>);

impl Plan {
    pub fn new(scenario: &str, subject: &str) -> Plan {
        Plan {
            scenario: scenario.to_string(),
            subject: subject.to_string(),
            value: None,
            bytes: None,
            msgs: vec![],
            suffix: HexBytes(vec![]),
            muts: vec![],
            sources: vec![],
            sinks: vec![],
            ops: vec![],
            p: BTreeMap::new(),
        }
    }
    pub fn param(&self, k: &str) -> i64 {
        *self.p.get(k).unwrap_or(&0)
    }
    pub fn has(&self, k: &str) -> bool {
        self.p.contains_key(k)
    }
    pub fn set(&mut self, k: &str, v: i64) {
        self.p.insert(k.to_string(), v);
    }
    pub fn source0(&self) -> SourceSpec {
        self.sources.first().cloned().unwrap_or_else(SourceSpec::slice)
    }
}

/// Replay file contents.
#[derive(Clone, Debug, Serialize, Deserialize)]
pub struct Replay {
    pub property: String,
    pub seed: u64,
    pub scenario: String,
    pub case: u64,
    pub class: String,
    pub detail: String,
    pub minimised: bool,
    pub shrink_steps: u32,
    pub plan: Plan,
    #[serde(default)]
    pub trace: Vec<String>,
}
