//! C11 — depth-limited decoding is transparent, monotone and stack-safe.
//! Every value of the limit L makes a different descend_ref call the failing one, so
//! enumerating L is fault enumeration.  Part (b) runs deep hostile inputs on a 1 MiB stack.

use super::bytesgen::*;
use super::corrupt::{needs_isolation, slow_by_count};
use super::*;
use crate::engine::*;
use crate::model::{depths, ref_decode_raw, Gen, S};
use crate::subjects::Mode;
use serde_json::json;

fn has_heap(s: &S, d: usize) -> bool {
    if d > 6 {
        return true;
    }
    match s {
        S::Seq(..) | S::Set(_) | S::Map(..) | S::Str | S::Bytes | S::Bits(..) | S::Named(_) => true,
        S::Ptr(k, e) => *k != crate::model::PtrKind::Cow || has_heap(e, d + 1),
        S::Opt(e) | S::Array(_, e) | S::GArray(_, e) | S::Range(e) => has_heap(e, d + 1),
        S::Res(a, b) => has_heap(a, d + 1) || has_heap(b, d + 1),
        S::Tuple(f) => f.iter().any(|x| has_heap(x, d + 1)),
        S::Enum(vs) => vs.iter().any(|(_, f)| f.iter().any(|x| has_heap(x, d + 1))),
        _ => false,
    }
}

pub struct Depth;

impl Scenario for Depth {
    fn name(&self) -> &'static str {
        "depth"
    }
    fn property(&self) -> &'static str {
        "C11"
    }
    fn level(&self) -> &'static str {
        "fault_enumeration"
    }
    fn rule(&self) -> &'static str {
        "per case one subject that contains heap containers (Vec, VecDeque, BinaryHeap, LinkedList, BTreeMap, BTreeSet, Box, Rc, Arc, String, bit sequences, recursive Tree/Chain up to 14 levels), one byte string (honest encoding of a wide-but-shallow or deep-but-narrow value, or damaged / truncated / random) and one source; unlimited result R first, then EVERY limit L in 0..=D_hi+2 through the depth wrapper over the drawn source (with optional inner non-binding layers and, in a third of the cases, one or two non-binding CountedInput / memory-tracking / depth wrappers stacked above it, which have to forward descend/ascend), through T::decode_with_depth_limit on the slice and through decode_all_with_depth_limit with and without a trailing byte; oracle: result(L) in {R, Err}, monotone in L, equal to R for L >= D_hi (every heap container on the deepest path), Err for L < D_lo (containers that are recursed through), consume-all variant rejects trailing bytes; one sub-run per (L, entry point); non-trivial = every sub-run with L < D_hi+1 (a descend_ref call can fail)"
    }
    fn cases(&self, tier: Tier) -> u64 {
        tiered(tier, 500_000, 20_000_000)
    }
    fn gen(&self, seed: u64, idx: u64, _tier: Tier) -> Plan {
        let mut rng = Rng::for_case(seed, "depth", idx);
        loop {
            let want_rec = rng.chance(1, 4);
            let s = pick_subject(&mut rng, &|s| has_heap(&s.schema, 0) && !s.heavy && (!want_rec || s.schema.contains_named() || matches!(s.schema, S::Named(_))));
            let mut p = Plan::new("depth", s.name);
            let fam = *rng.pick(&[Family::Valid, Family::Valid, Family::Valid, Family::ValidSuffix, Family::Damaged, Family::Truncated, Family::Random]);
            if fam == Family::Random {
                gen_bytes_family(&mut rng, s, &mut p, false, fam);
            } else {
                // deep-but-narrow or wide-but-shallow
                let deep = rng.chance(1, 2);
                let big = rng.chance(1, 30);
                let budget = if big { 60_000 } else { *rng.pick(&[6usize, 20, 60, 200]) };
                let mut g = Gen::new(&mut rng, budget, big);
                g.max_rec = if deep { 12 } else { 3 };
                let v = g.gen(&s.schema);
                p.value = Some(v);
                match fam {
                    Family::ValidSuffix => p.suffix = HexBytes(vec![rng.byte()]),
                    Family::Truncated => {
                        let n = plan_bytes(&p).len();
                        if n > 0 {
                            p.muts.push(Mutation::Truncate { len: rng.below(n as u64) as u32 });
                        }
                    },
                    Family::Damaged => {
                        let (enc, ann) = crate::model::ref_encode_ann(&s.schema, p.value.as_ref().unwrap());
                        if !ann.is_empty() {
                            let a = rng.pick(&ann).clone();
                            p.muts.push(aimed_mutation(&mut rng, &a, enc.len()));
                        } else {
                            p.muts.push(blind_mutation(&mut rng, enc.len()));
                        }
                    },
                    _ => {},
                }
            }
            if s.empty_elem {
                let b = plan_bytes(&p);
                if needs_isolation(s, &b) || slow_by_count(s, &b) {
                    continue;
                }
            }
            p.set("fix_family", fam as i64);
            let mut src = gen_benign_source(&mut rng, false);
            src.layers = gen_layers(&mut rng, 2);
            if rng.chance(1, 6) {
                // a *binding* memory tracker underneath: the depth wrapper must stay transparent
                // with respect to whatever the wrapped input does with the allocation hook
                src.layers.insert(0, Layer::Mem(*rng.pick(&[0u64, 1, 8, 64, 1000])));
            }
            p.sources.push(src);
            // Non-binding wrappers stacked *above* the depth wrapper (as a type that decodes a
            // field through CountedInput or a memory tracker would do): they have to forward
            // descend_ref / ascend_ref.  Drawn last so that all other plan fields are unchanged.
            if rng.chance(1, 3) {
                let mut code = 0i64;
                for _ in 0..rng.range(1, 2) {
                    code = code * 4 + 1 + rng.below(3) as i64;
                }
                p.set("outer_layers", code);
            }
            return p;
        }
    }
    fn run(&self, plan: &Plan, st: &mut Stats) -> Verdict {
        let s = catalogue().get(&plan.subject);
        let bytes = plan_bytes(plan);
        let src = plan.source0();
        let mut outer: Vec<Layer> = Vec::new();
        let mut code = plan.param("outer_layers");
        while code > 0 {
            outer.push(match code % 4 {
                1 => Layer::Counted,
                2 => Layer::Mem(u64::MAX),
                _ => Layer::Depth(u32::MAX),
            });
            code /= 4;
        }
        if !outer.is_empty() {
            st.probe("wrappers_above_depth_layer");
        }
        let r = (s.decode)(&bytes, &src, Mode::Decode);
        st.note(salt(&[s.name, &src.describe(), "unlimited", if r.res.is_ok() { "ok" } else { "err" }]), &r.trace, bytes.len() > 1);
        // depth measures from the decoded value
        // The nesting the decoder has to walk through is that of the *encoding* (map entries
        // later collapsed as duplicates still have to be decoded), so measure the wire structure.
        let (d_lo, d_hi) = match &r.res {
            Ok(v) => match ref_decode_raw(&s.schema, &bytes) {
                Ok((raw, _)) => {
                    let (lo, hi) = depths(&s.schema, &raw);
                    let (_, hi2) = depths(&s.schema, v);
                    (lo.min(depths(&s.schema, v).0), hi.max(hi2))
                },
                Err(_) => depths(&s.schema, v),
            },
            Err(_) => (0, 6),
        };
        if d_lo > d_hi {
            panic!("harness: d_lo {} > d_hi {} for {}", d_lo, d_hi, s.name);
        }
        let mut prev_ok = false;
        let slice = SourceSpec::slice();
        let exact = r.res.is_ok() && r.taken == bytes.len();
        for l in 0..=d_hi + 2 {
            // (1) wrapper as outermost layer (layer lists are innermost-first) over the drawn source
            let mut ls = src.clone();
            ls.layers.push(Layer::Depth(l));
            ls.layers.extend(outer.iter().cloned());
            let a = (s.decode)(&bytes, &ls, Mode::Decode);
            // (2) direct entry point on the slice (only comparable when the drawn source has no
            // binding layer of its own)
            let binding_inner = src.layers.iter().any(|x| matches!(x, Layer::Mem(m) if *m != u64::MAX));
            let b = if binding_inner { (s.decode)(&bytes, &ls, Mode::Decode) } else { (s.decode)(&bytes, &slice, Mode::DepthDirect(l)) };
            // (3) consume-all variant
            let c = if binding_inner { (s.decode)(&bytes, &ls, Mode::Decode) } else { (s.decode)(&bytes, &slice, Mode::DecodeAllDepth(l)) };
            let binding = l < d_hi + 1;
            for (name, out) in [("layer", &a), ("direct", &b)] {
                st.note(salt(&[s.name, name, &l.min(15).to_string(), if out.res.is_ok() { "ok" } else { "err" }]), &out.trace, binding);
                match (&r.res, &out.res) {
                    (Ok(rv), Ok(v)) => {
                        if rv != v || r.taken != out.taken {
                            return viol("c11.not_transparent", format!("{}: bytes {}: limit {} ({}) gives {} ({} bytes) but unlimited decoding gives {} ({} bytes)", s.name, hex_short(&bytes), l, name, short(v), out.taken, short(rv), r.taken));
                        }
                    },
                    (Err(_), Ok(v)) => {
                        return viol("c11.limit_accepts_more", format!("{}: bytes {}: unlimited decoding fails but limit {} ({}) gives {}", s.name, hex_short(&bytes), l, name, short(v)));
                    },
                    (Ok(rv), Err(e)) => {
                        if l >= d_hi {
                            return viol("c11.rejects_shallow_value", format!("{}: value {} nests {} heap containers on its deepest path but limit {} ({}) fails: {}", s.name, short(rv), d_hi, l, name, e));
                        }
                    },
                    (Err(_), Err(_)) => {},
                }
                if r.res.is_ok() && out.res.is_ok() && l < d_lo {
                    return viol("c11.accepts_deep_value", format!("{}: value {} recurses through {} container levels but limit {} ({}) accepts it", s.name, short(r.res.as_ref().unwrap()), d_lo, l, name));
                }
            }
            if a.res.is_ok() != b.res.is_ok() {
                return viol("c11.entry_points_differ", format!("{}: bytes {} limit {}: wrapper over {} {} but direct slice call {}", s.name, hex_short(&bytes), l, ls.describe(), if a.res.is_ok() { "succeeds" } else { "fails" }, if b.res.is_ok() { "succeeds" } else { "fails" }));
            }
            if prev_ok && a.res.is_err() {
                return viol("c11.not_monotone", format!("{}: bytes {}: succeeds at limit {} but fails at {}", s.name, hex_short(&bytes), l - 1, l));
            }
            prev_ok = a.res.is_ok();
            // consume-all
            st.note(salt(&[s.name, "all", &l.min(15).to_string(), if c.res.is_ok() { "ok" } else { "err" }]), &c.trace, binding);
            if binding_inner {
                continue;
            }
            match (&b.res, &c.res) {
                (Ok(v), Ok(w)) => {
                    if b.taken != bytes.len() {
                        return viol("c11.decode_all_accepts_trailing", format!("{}: bytes {} limit {}: decode_all_with_depth_limit succeeds although {} bytes remain", s.name, hex_short(&bytes), l, bytes.len() - b.taken));
                    }
                    if v != w {
                        return viol("c11.decode_all_value", format!("{}: limit {}: decode_all_with_depth_limit gives {} vs {}", s.name, l, short(w), short(v)));
                    }
                },
                (Ok(_), Err(_)) => {
                    if b.taken == bytes.len() {
                        return viol("c11.decode_all_rejects", format!("{}: bytes {} limit {}: decode_with_depth_limit consumes everything but decode_all_with_depth_limit fails", s.name, hex_short(&bytes), l));
                    }
                },
                (Err(_), Ok(w)) => {
                    return viol("c11.decode_all_accepts", format!("{}: bytes {} limit {}: decode_all_with_depth_limit gives {} but decode_with_depth_limit fails", s.name, hex_short(&bytes), l, short(w)));
                },
                (Err(_), Err(_)) => {},
            }
            let _ = exact;
        }
        // very large limits (beyond i32::MAX) are just as non-binding as D_hi
        for l in [i32::MAX as u32, 1u32 << 31, (1u32 << 31) + 1, u32::MAX - 1, u32::MAX] {
            let mut ls = src.clone();
            ls.layers.push(Layer::Depth(l));
            ls.layers.extend(outer.iter().cloned());
            let a = (s.decode)(&bytes, &ls, Mode::Decode);
            let b = if src.layers.iter().any(|x| matches!(x, Layer::Mem(m) if *m != u64::MAX)) { (s.decode)(&bytes, &ls, Mode::Decode) } else { (s.decode)(&bytes, &slice, Mode::DepthDirect(l)) };
            for (name, out) in [("layer", &a), ("direct", &b)] {
                st.note(salt(&[s.name, name, "huge", if out.res.is_ok() { "ok" } else { "err" }]), &out.trace, false);
                match (&r.res, &out.res) {
                    (Ok(rv), Ok(v)) if rv == v && r.taken == out.taken => {},
                    (Err(_), Err(_)) => {},
                    (Ok(rv), Err(e)) => return viol("c11.rejects_shallow_value", format!("{}: value {} nests {} heap containers but limit {} ({}) fails: {}", s.name, short(rv), d_hi, l, name, e)),
                    _ => return viol("c11.not_transparent", format!("{}: bytes {}: limit {} ({}) differs from unlimited decoding", s.name, hex_short(&bytes), l, name)),
                }
            }
        }
        if d_hi >= 4 {
            st.probe("values_nested_4_or_deeper");
        }
        if d_hi >= 8 {
            st.probe("values_nested_8_or_deeper");
        }
        st.sample(|| json!({"subject": s.name, "bytes": hex_short(&bytes), "source": src.describe(), "unlimited": r.res.is_ok(), "d_lo": d_lo, "d_hi": d_hi, "limits_enumerated": d_hi + 3}));
        Ok(())
    }
}

// ------------------------------------------------------------------------------------------
// (b) stack safety

pub struct DeepStack;

const DEPTHS: [usize; 4] = [1_000, 10_000, 100_000, 1_000_000];
const LIMITS: [u32; 5] = [0, 1, 16, 100, 256];
const SHAPES: usize = 8;
const SRCS: usize = 3;

fn deep_bytes(shape: usize, n: usize) -> (&'static str, Vec<u8>) {
    let mut b = Vec::with_capacity(n * 3 + 4);
    match shape {
        0 => {
            // Tree: Node(Box(Node(Box(... Leaf
            b.resize(n, 1u8);
            b.extend_from_slice(&[0, 7]);
            ("Tree", b)
        },
        1 => {
            // Tree: Many(vec![Many(vec![...
            for _ in 0..n {
                b.extend_from_slice(&[2, 4]);
            }
            b.extend_from_slice(&[0, 7]);
            ("Tree", b)
        },
        2 => {
            // Tree mixed: Map{3:..} -> List[..] -> Shared(..) -> Node(..)
            for i in 0..n {
                match i % 4 {
                    0 => b.extend_from_slice(&[3, 4, 9]),
                    1 => b.extend_from_slice(&[4, 4]),
                    2 => b.push(5),
                    _ => b.push(1),
                }
            }
            b.extend_from_slice(&[0, 7]);
            ("Tree", b)
        },
        3 => {
            // Chain(Some(Box(Chain(Some(...
            b.resize(n, 1u8);
            b.push(0);
            ("Chain", b)
        },
        4 => {
            // Vec<Tree> with one deep element
            b.push(4);
            b.resize(n + 1, 1u8);
            b.extend_from_slice(&[0, 7]);
            ("Vec<Tree>", b)
        },
        5 => {
            // Tree through maps only
            for _ in 0..n {
                b.extend_from_slice(&[3, 4, 1]);
            }
            b.extend_from_slice(&[0, 7]);
            ("Tree", b)
        },
        6 => {
            // MarkChain: Link(Box<()>, Box<Link(...)>): a boxed zero-sized marker on every level
            b.resize(n, 1u8);
            b.push(0);
            ("MarkChain", b)
        },
        _ => {
            // MarkChain: Wide(Rc<()>, vec![Wide(...)])
            for _ in 0..n {
                b.extend_from_slice(&[2, 4]);
            }
            b.push(0);
            ("MarkChain", b)
        },
    }
}

impl Scenario for DeepStack {
    fn name(&self) -> &'static str {
        "deepstack"
    }
    fn property(&self) -> &'static str {
        "C11"
    }
    fn level(&self) -> &'static str {
        "fault_enumeration"
    }
    fn rule(&self) -> &'static str {
        "stack safety: recursive Tree / Chain / Vec<Tree> inputs nested 10^3, 10^4, 10^5, 10^6 levels (all boxes, all vectors, maps, lists, shared pointers, mixed) decoded with limits {0,1,16,100,256} through slice, unknown-length Input (with a CountedInput above the depth wrapper) and short-read reader on a thread with a 1 MiB stack: must return Err and the thread and process must survive (a stack overflow kills the worker and is reported by the supervisor)"
    }
    fn cases(&self, tier: Tier) -> u64 {
        let d = if tier == Tier::Quick { 3 } else { 4 };
        cap((SHAPES * d * SRCS) as u64)
    }
    fn gen(&self, _seed: u64, idx: u64, tier: Tier) -> Plan {
        let d = if tier == Tier::Quick { 3 } else { 4 };
        let shape = idx as usize % SHAPES;
        let depth = DEPTHS[(idx as usize / SHAPES) % d];
        let so = (idx as usize / (SHAPES * d)) % SRCS;
        let (name, _) = deep_bytes(shape, 1);
        let mut p = Plan::new("deepstack", name);
        p.set("fix_shape", shape as i64);
        p.set("levels", depth as i64);
        let mut s = SourceSpec::with_base([Base::Slice, Base::SimInput, Base::SimRead][so]);
        if so == 1 {
            s.known_len = false;
        }
        if so == 2 {
            s.chunks = vec![7, 1, 64];
        }
        p.sources.push(s);
        p
    }
    fn run(&self, plan: &Plan, st: &mut Stats) -> Verdict {
        let levels = plan.param("levels").max(300) as usize;
        let (name, bytes) = deep_bytes(plan.param("fix_shape") as usize, levels);
        let s = catalogue().get(name);
        let src = plan.source0();
        let mut results = Vec::new();
        for l in LIMITS {
            let mut ls = src.clone();
            // the unknown-length source also gets a byte counter above the depth wrapper
            ls.layers = if src.base == Base::SimInput { vec![Layer::Depth(l), Layer::Counted] } else { vec![Layer::Depth(l)] };
            let bytes2 = bytes.clone();
            let ls2 = ls.clone();
            // 1 MiB stack, as a constrained embedder would have
            let h = std::thread::Builder::new().stack_size(1 << 20).spawn(move || {
                let out = (s.decode)(&bytes2, &ls2, Mode::Decode);
                (out.res.is_ok(), out.trace)
            });
            let (ok, trace) = match h {
                Ok(h) => match h.join() {
                    Ok(x) => x,
                    Err(_) => return viol("c11.panic_on_deep_input", format!("{}: {} levels, limit {}: decoding thread panicked", name, levels, l)),
                },
                Err(e) => panic!("harness: cannot spawn thread: {e}"),
            };
            st.note(salt(&[name, &src.describe(), &levels.to_string(), &l.to_string()]), &trace, true);
            st.fire("depth_limit_binding");
            if ok {
                return viol("c11.accepts_deep_value", format!("{}: input nested {} levels was accepted with limit {} via {}", name, levels, l, ls.describe()));
            }
            results.push(l);
        }
        st.probe("deep_inputs_survived");
        st.sample(|| json!({"subject": name, "levels": levels, "input_len": bytes.len(), "source": src.describe(), "limits": results, "stack": "1 MiB"}));
        Ok(())
    }
}
