//! C07 — all encoding entry points and bulk fast paths agree.

use super::*;
use crate::engine::*;
use crate::subjects::Mode;
use serde_json::json;

pub struct Sinks;

const ALL_SINKS: [SinkKind; 11] = [SinkKind::Owned, SinkKind::KeyedVec, SinkKind::Joiner, SinkKind::ToVec, SinkKind::Chunk, SinkKind::Plain, SinkKind::DynChunk, SinkKind::SimWrite, SinkKind::Cursor, SinkKind::BufWriter, SinkKind::UsingEncoded];

impl Scenario for Sinks {
    fn name(&self) -> &'static str {
        "sinks"
    }
    fn property(&self) -> &'static str {
        "C07"
    }
    fn level(&self) -> &'static str {
        "exploration"
    }
    fn rule(&self) -> &'static str {
        "per case one subject and one boundary-biased value (lengths around multiples of the 16 KiB window for bulk element types), encoded through every sink: encode(), encode_to(Vec with existing content), custom Output with push_byte, custom Output without push_byte, &mut dyn Output, io::Write with short writes and EINTR under 3 drawn schedules, io::Cursor, small BufWriter, using_encoded; encoded_size(); for bulk subjects also the element-wise twin type: same encoding, and the encoding (and a truncation of it) decodes identically as bulk and as twin through the same benign source; every sink / decode is one sub-run; non-trivial = a short write/EINTR fired or more than one sink call or more than one encoded byte"
    }
    fn cases(&self, tier: Tier) -> u64 {
        tiered(tier, 800_000, 30_000_000)
    }
    fn gen(&self, seed: u64, idx: u64, _tier: Tier) -> Plan {
        let mut rng = Rng::for_case(seed, "sinks", idx);
        let want_twin = rng.chance(1, 3);
        let s = pick_subject(&mut rng, &|s| !want_twin || s.twin.is_some());
        let mut p = Plan::new("sinks", s.name);
        let big = rng.chance(1, if want_twin { 6 } else { 40 });
        p.value = Some(gen_value(&mut rng, s, big));
        for k in ALL_SINKS {
            let mut sp = SinkSpec { kind: k, chunks: vec![], eintr: vec![] };
            match k {
                SinkKind::SimWrite => {
                    for _ in 0..3 {
                        let mut x = sp.clone();
                        x.chunks = gen_chunks(&mut rng);
                        x.eintr = gen_eintr(&mut rng);
                        p.sinks.push(x);
                    }
                    continue;
                },
                SinkKind::BufWriter => sp.chunks = vec![rng.range(1, 40) as u32],
                _ => {},
            }
            p.sinks.push(sp);
        }
        p.sources.push(gen_benign_source(&mut rng, true));
        p.set("cut_permille", rng.below(1000) as i64);
        p.set("fix_skipped_variant", rng.chance(1, 40) as i64);
        p
    }
    fn run(&self, plan: &Plan, st: &mut Stats) -> Verdict {
        let cat = catalogue();
        let s = cat.get(&plan.subject);
        let v = plan.value.as_ref().expect("harness: sinks needs a value");
        if plan.param("fix_skipped_variant") == 1 {
            skipped_variant_values(plan.param("cut_permille") as u8, st)?;
        }
        let mut reference: Option<Vec<u8>> = None;
        for sink in &plan.sinks {
            let out = (s.encode)(v, sink);
            st.note(salt(&[s.name, &format!("{:?}", sink.kind)]), &out.trace, out.bytes.len() > 1);
            match &reference {
                None => reference = Some(out.bytes),
                Some(r) => {
                    if *r != out.bytes {
                        let at = r.iter().zip(&out.bytes).position(|(a, b)| a != b).unwrap_or(r.len().min(out.bytes.len()));
                        return viol("c07.sink_differs", format!("{}: value {}: sink {:?} (chunks {:?}, eintr {:?}) produced {} bytes, first sink {} bytes; first difference at offset {}", s.name, short(v), sink.kind, sink.chunks, sink.eintr, out.bytes.len(), r.len(), at));
                    }
                },
            }
        }
        let enc = reference.unwrap_or_default();
        let sz = (s.encoded_size)(v);
        if sz != enc.len() {
            return viol("c07.encoded_size", format!("{}: value {}: encoded_size() = {} but the encoding has {} bytes", s.name, short(v), sz, enc.len()));
        }
        // the agreed encoding decodes back to the value (derived / wrapper types must not take a
        // bulk path that is not theirs)
        {
            let back = (s.decode)(&enc, &SourceSpec::slice(), Mode::Decode);
            match &back.res {
                Ok(x) if x == v && back.taken == enc.len() => {},
                Ok(x) => return viol("c07.decode_of_encoding", format!("{}: value {} encodes to {} bytes which decode to {} ({} bytes consumed)", s.name, short(v), enc.len(), short(x), back.taken)),
                Err(e) => return viol("c07.decode_of_encoding", format!("{}: value {} encodes to {} which does not decode: {}", s.name, short(v), hex_short(&enc), e)),
            }
        }
        if let Some(tn) = s.twin {
            let t = cat.get(tn);
            let tenc = (t.encode)(v, &SinkSpec::owned()).bytes;
            if tenc != enc {
                return viol("c07.bulk_encode_differs", format!("{}: value {}: bulk encoding differs from element-wise twin {}", s.name, short(v), tn));
            }
            let tchunk = (t.encode)(v, &SinkSpec { kind: SinkKind::Chunk, chunks: vec![], eintr: vec![] }).bytes;
            if tchunk != enc {
                return viol("c07.bulk_encode_differs", format!("{}: value {}: bulk encoding differs from element-wise twin {} (custom Output)", s.name, short(v), tn));
            }
            let src = plan.source0();
            let cut = (enc.len() as u64 * plan.param("cut_permille") as u64 / 1000) as usize;
            let near_end = enc.len().saturating_sub(1 + (plan.param("cut_permille") as usize % 3));
            for (what, data) in [("full", &enc[..]), ("truncated", &enc[..cut]), ("truncated near the end", &enc[..near_end])] {
                let a = (s.decode)(data, &src, Mode::Decode);
                let b = (t.decode)(data, &src, Mode::Decode);
                st.note(salt(&[s.name, &src.describe(), what, "bulk"]), &a.trace, data.len() > 1);
                st.note(salt(&[tn, &src.describe(), what, "twin"]), &b.trace, data.len() > 1);
                if a.trace.max_read > 16384 / 2 {
                    st.probe("bulk_read_of_a_whole_chunk");
                }
                match (&a.res, &b.res) {
                    (Ok(x), Ok(y)) => {
                        if x != y || a.taken != b.taken {
                            return viol("c07.bulk_decode_differs", format!("{} vs {}: {} encoding of {} via {}: bulk gives {} ({} bytes), element-wise gives {} ({} bytes)", s.name, tn, what, short(v), src.describe(), short(x), a.taken, short(y), b.taken));
                        }
                        if what == "full" && x != v {
                            return viol("c07.bulk_roundtrip", format!("{}: {} decodes to {}", s.name, short(v), short(x)));
                        }
                    },
                    (Err(_), Err(_)) => {},
                    (x, y) => {
                        return viol("c07.bulk_decode_outcome_differs", format!("{} vs {}: {} encoding of {} via {}: bulk {:?} element-wise {:?}", s.name, tn, what, short(v), src.describe(), x.as_ref().map(short), y.as_ref().map(short)));
                    },
                }
            }
            st.probe("twin_cases");
        }
        st.sample(|| json!({"subject": s.name, "value": short(v), "encoding_len": enc.len(), "sinks": plan.sinks.iter().map(|k| format!("{:?}{:?}", k.kind, k.chunks)).collect::<Vec<_>>(), "twin": s.twin}));
        Ok(())
    }
}

/// Values in a `#[codec(skip)]` variant encode to nothing through every entry point (they have
/// no model value, so they are exercised by this typed helper).
fn skipped_variant_values(x: u8, st: &mut Stats) -> Verdict {
    use crate::types::EnumSkip;
    use parity_scale_codec::Encode;
    #[derive(Encode)]
    struct Holder {
        a: u8,
        e: EnumSkip,
        b: u16,
    }
    fn all_forms<T: Encode>(what: &str, t: &T, want: &[u8]) -> Verdict {
        let mut c = crate::seams::ChunkSink::new();
        t.encode_to(&mut c);
        let forms: [(&str, Vec<u8>); 3] = [("encode", t.encode()), ("encode_to", c.out), ("using_encoded", t.using_encoded(|b| b.to_vec()))];
        for (n, f) in forms.iter() {
            if f != want {
                return viol("c07.sink_differs", format!("{what}: {n} gives {} but the value encodes to {}", hex_short(f), hex_short(want)));
            }
        }
        if t.encoded_size() != want.len() {
            return viol("c07.encoded_size", format!("{what}: encoded_size() = {} but the encoding has {} bytes", t.encoded_size(), want.len()));
        }
        Ok(())
    }
    all_forms("EnumSkip::S (skipped variant)", &EnumSkip::S(x), &[])?;
    all_forms("&EnumSkip::S", &&EnumSkip::S(x), &[])?;
    all_forms("Box<EnumSkip::S>", &Box::new(EnumSkip::S(x)), &[])?;
    all_forms("(EnumSkip::S,)", &(EnumSkip::S(x),), &[])?;
    let h = Holder { a: x, e: EnumSkip::S(1), b: 0x0102 };
    all_forms("struct { u8, skipped-variant enum, u16 }", &h, &[x, 0x02, 0x01])?;
    all_forms("Vec<EnumSkip::S>", &vec![EnumSkip::S(x), EnumSkip::B(7)], &[0x08, 0x01, 0x07])?;
    st.probe("skipped_variant_values_checked");
    Ok(())
}
