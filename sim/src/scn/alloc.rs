//! C09 — memory requested while decoding is bounded by the input supplied.
//! Seam: the process allocator (accounting window around each decode call) + count tampering
//! on the wire at every nesting position + unknown-length sources.

use super::bytesgen::*;
use super::corrupt::{needs_isolation, slow_by_count};
use super::*;
use crate::engine::*;
use crate::model::{compact_bytes, ref_encode_ann, Ann, AK, S};
use crate::subjects::Mode;
use serde_json::json;

pub const ALLOW_PER_LEVEL: usize = 1 << 20;
pub const AMP: usize = 64;

fn nest_depth(s: &S, d: usize) -> usize {
    if d > 6 {
        return 0;
    }
    match s {
        S::Seq(_, e, _, _) | S::Set(e) => 1 + nest_depth(e, d + 1),
        S::Map(k, v) => 1 + nest_depth(k, d + 1).max(nest_depth(v, d + 1)),
        S::Str | S::Bytes | S::Bits(..) => 1,
        S::Opt(e) | S::Array(_, e) | S::Range(e) => nest_depth(e, d + 1),
        S::GArray(_, e) => 1 + nest_depth(e, d + 1),
        S::Ptr(_, e) => 1 + nest_depth(e, d + 1),
        S::Res(a, b) => nest_depth(a, d + 1).max(nest_depth(b, d + 1)),
        S::Tuple(f) => f.iter().map(|x| nest_depth(x, d + 1)).max().unwrap_or(0),
        S::Enum(vs) => vs.iter().flat_map(|(_, f)| f.iter()).map(|x| nest_depth(x, d + 1)).max().unwrap_or(0),
        S::Named(_) => 8,
        _ => 0,
    }
}

/// Generous linear bound of C09: peak <= AMP * input_len + (depth+1) * ALLOW + fixed(T) + 4 KiB.
pub fn linear_bound(s: &Subject, input_len: usize) -> usize {
    AMP * input_len + (nest_depth(&s.schema, 0) + 1) * ALLOW_PER_LEVEL + 65536 + 2 * s.mem_size + 4096
}

fn has_counts(s: &S, d: usize) -> bool {
    if d > 6 {
        return true;
    }
    match s {
        S::Seq(..) | S::Set(_) | S::Map(..) | S::Str | S::Bytes | S::Bits(..) => true,
        S::Opt(e) | S::Array(_, e) | S::GArray(_, e) | S::Ptr(_, e) | S::Range(e) => has_counts(e, d + 1),
        S::Res(a, b) => has_counts(a, d + 1) || has_counts(b, d + 1),
        S::Tuple(f) => f.iter().any(|x| has_counts(x, d + 1)),
        S::Enum(vs) => vs.iter().any(|(_, f)| f.iter().any(|x| has_counts(x, d + 1))),
        S::Named(_) => true,
        _ => false,
    }
}

fn counted_subjects() -> Vec<&'static Subject> {
    catalogue().list.iter().filter(|s| has_counts(&s.schema, 0) && !s.heavy).collect()
}

const PAYLOADS: [usize; 6] = [0, 1, 100, 4096, 16385, 65536];
const SOURCES: usize = 4;
const NS: [u64; 12] = [1 << 10, 1 << 13, 1 << 14, (1 << 14) + 1, 1 << 16, 1 << 20, 1 << 22, 1 << 24, (1 << 30) - 1, 1 << 30, 1 << 31, u32::MAX as u64];

fn source_of(i: usize) -> SourceSpec {
    match i % SOURCES {
        0 => SourceSpec::slice(),
        1 => {
            let mut s = SourceSpec::with_base(Base::SimInput);
            s.known_len = false;
            s
        },
        2 => {
            let mut s = SourceSpec::with_base(Base::SimRead);
            s.chunks = vec![4096, 1, 17];
            s
        },
        _ => SourceSpec::with_base(Base::FromBytes),
    }
}

/// Wire bytes: honest encoding with the count at `a` replaced by `n`, plus `p` plausible
/// payload bytes appended.
fn tampered(enc: &[u8], a: &Ann, n: u64, p: usize) -> Vec<u8> {
    let mut out = enc[..a.off].to_vec();
    compact_bytes(n as u128, &mut out);
    let tail = &enc[a.off + a.len..];
    out.extend_from_slice(tail);
    if p > 0 {
        if tail.is_empty() {
            out.extend(std::iter::repeat(1u8).take(p));
        } else {
            out.extend(tail.iter().cycle().take(p));
        }
    }
    out
}

pub struct Alloc;

impl Scenario for Alloc {
    fn name(&self) -> &'static str {
        "alloc"
    }
    fn property(&self) -> &'static str {
        "C09"
    }
    fn level(&self) -> &'static str {
        "fault_enumeration"
    }
    fn rule(&self) -> &'static str {
        "count tampering enumerated: for every catalogue subject containing a sequence/map/set/list/heap/deque/string/bit-sequence/byte-buffer x 3 (quick) or 12 (thorough) generated honest values x EVERY count-prefix position of the encoding (annotation map) x claimed count N in {backed+1, 2^10, 2^16, 2^20, 2^22, 2^24, 2^30-1, 2^30, 2^31, 2^32-1} (bit sequences: 2^29-1, 2^29 too) x appended payload P in {0,1,100,4096,16385,65536} plausible bytes x source in {slice, unknown-length Input, IoReader over a short-read reader, shared Bytes buffer}; the accounting allocator records the peak of live bytes requested during the decode call; oracles: (i) claim independence: identical peak for all N >= 2^20 at fixed position/payload/source, (ii) peak <= 64*input_len + (depth+1)*1 MiB + fixed(T), (iii) no allocation-cap abort; one sub-run per (position, N); non-trivial = every sub-run (a count was tampered)"
    }
    fn cases(&self, tier: Tier) -> u64 {
        let vals = if tier == Tier::Quick { 3 } else { 12 };
        let iso = catalogue().list.iter().filter(|s| s.empty_alloc).count() as u64;
        cap(counted_subjects().len() as u64 * vals * PAYLOADS.len() as u64 * SOURCES as u64) + iso
    }
    fn gen(&self, seed: u64, idx: u64, tier: Tier) -> Plan {
        let subs = counted_subjects();
        let vals = if tier == Tier::Quick { 3u64 } else { 12 };
        let main = cap(subs.len() as u64 * vals * PAYLOADS.len() as u64 * SOURCES as u64);
        if idx >= main {
            // one supervised case per subject whose empty-encoding elements allocate
            let k = (idx - main) as usize;
            let s = catalogue().list.iter().filter(|s| s.empty_alloc).nth(k).unwrap();
            let mut p = Plan::new("alloc", s.name);
            let mut b = Vec::new();
            compact_bytes(1u128 << 28, &mut b);
            p.bytes = Some(HexBytes(b));
            p.set("fix_isolated", 1);
            p.sources.push(SourceSpec::slice());
            return p;
        }
        let si = (idx / (vals * PAYLOADS.len() as u64 * SOURCES as u64)) as usize % subs.len();
        let rest = idx % (vals * PAYLOADS.len() as u64 * SOURCES as u64);
        let vi = rest / (PAYLOADS.len() as u64 * SOURCES as u64);
        let pi = (rest / SOURCES as u64) as usize % PAYLOADS.len();
        let so = (rest % SOURCES as u64) as usize;
        let s = subs[si];
        // the value depends on (subject, value index) only, so that all payloads/sources see it
        let mut rng = Rng::for_case(seed, "alloc-value", (si as u64) << 8 | vi);
        let mut p = Plan::new("alloc", s.name);
        // make sure the value has at least one count prefix
        let mut v = gen_value(&mut rng, s, false);
        for _ in 0..20 {
            let (_, ann) = ref_encode_ann(&s.schema, &v);
            if ann.iter().any(|a| matches!(a.kind, AK::Count | AK::BitsLen)) {
                break;
            }
            v = gen_value(&mut rng, s, false);
        }
        p.value = Some(v);
        p.set("fix_payload", PAYLOADS[pi] as i64);
        p.sources.push(source_of(so));
        p
    }
    fn isolated(&self, plan: &Plan) -> bool {
        plan.param("fix_isolated") == 1
    }
    fn run(&self, plan: &Plan, st: &mut Stats) -> Verdict {
        let s = catalogue().get(&plan.subject);
        let src = plan.source0();
        if plan.param("fix_isolated") == 1 {
            let bytes = plan_bytes(plan);
            let out = (s.decode)(&bytes, &src, Mode::Decode);
            let bound = linear_bound(s, bytes.len());
            st.note(salt(&[s.name, "isolated"]), &out.trace, true);
            if out.window.peak as usize > bound {
                return viol("c09.linear_bound", format!("{}: {} input bytes (claimed count 2^28) made the decoder request a peak of {} bytes (bound {})", s.name, bytes.len(), out.window.peak, bound));
            }
            return Ok(());
        }
        let v = plan.value.as_ref().expect("harness: alloc needs a value");
        let (enc, ann) = ref_encode_ann(&s.schema, v);
        let payload = plan.param("fix_payload") as usize;
        // honest decode: calibration of the bound (a failure here is a harness problem)
        {
            let out = (s.decode)(&enc, &src, Mode::Decode);
            let bound = linear_bound(s, enc.len());
            if out.res.is_ok() && out.window.peak as usize > bound {
                panic!("harness: honest value of {} ({} bytes) peaks at {} > bound {}: bound constants are wrong", s.name, enc.len(), out.window.peak, bound);
            }
            st.note(salt(&[s.name, &src.describe(), "honest"]), &out.trace, true);
        }
        let positions: Vec<&Ann> = ann.iter().filter(|a| matches!(a.kind, AK::Count | AK::BitsLen)).take(6).collect();
        // `only_pos` / `only_n` narrow a case (set by hand when investigating); absent normally
        for (pi, a) in positions.iter().enumerate() {
            if plan.has("only_pos") && plan.param("only_pos") as usize != pi {
                continue;
            }
            let empty_elems = a.kind == AK::Count && a.aux == 0;
            let mut ns: Vec<u64> = vec![a.val + 1];
            if a.kind == AK::BitsLen {
                ns.extend_from_slice(&[1 << 10, 1 << 16, 1 << 20, 1 << 24, (1 << 29) - 1, 1 << 29]);
            } else if empty_elems {
                // zero-byte elements: time (and for allocating element types memory) is
                // proportional to the claimed count by construction; large counts run in the
                // supervised case / are a known finding
                if s.empty_alloc {
                    ns.extend_from_slice(&[1 << 10, 1 << 16]);
                } else {
                    ns.extend_from_slice(&[1 << 10, 1 << 16, 1 << 20, 1 << 22]);
                }
            } else {
                ns.extend_from_slice(&NS);
            }
            let mut big_peaks: Vec<(u64, isize)> = Vec::new();
            // (claimed count, peak) of claims the supplied input cannot back
            let mut unbacked: Vec<(u64, isize)> = Vec::new();
            for n in ns {
                let bytes = tampered(&enc, a, n, payload);
                let out = (s.decode)(&bytes, &src, Mode::Decode);
                let class = if out.res.is_ok() { "ok" } else { "err" };
                st.note(salt(&[s.name, &src.describe(), &pi.to_string(), &n.to_string(), &payload.to_string(), class]), &out.trace, true);
                st.fire("count_tamper");
                if std::env::var("SCALESIM_DEBUG").is_ok() {
                    eprintln!("DEBUG alloc {} pos {} n {} len {} peak {} largest {} requests {} total {} res {:?}", s.name, pi, n, bytes.len(), out.window.peak, out.window.largest, out.window.requests, out.window.total, out.res.as_ref().map(|_| ()));
                }
                let bound = linear_bound(s, bytes.len());
                if out.window.peak as usize > bound {
                    return viol(
                        "c09.linear_bound",
                        format!("{}: count prefix #{} (depth {}) set to {}, {} input bytes via {}: decoder requested a peak of {} bytes (largest single request {}), bound {}", s.name, pi, a.depth, n, bytes.len(), src.describe(), out.window.peak, out.window.largest, bound),
                    );
                }
                if n >= (1 << 20) && !empty_elems {
                    big_peaks.push((n, out.window.peak));
                }
                if !empty_elems {
                    let remaining = (bytes.len() - a.off) as u64;
                    let need = if a.kind == AK::BitsLen { n / 8 } else { n.saturating_mul(a.aux.max(1)) };
                    if need > remaining {
                        unbacked.push((n, out.window.peak));
                    }
                }
                if out.res.is_ok() {
                    st.probe("tampered_count_accepted");
                } else {
                    st.probe("tampered_count_rejected");
                }
                if out.window.peak > 0 {
                    st.probe("allocating_sub_runs");
                }
            }
            // "never by the claimed count": the peak must not grow with the claim (an outright
            // rejection of an over-large claim may of course need less).
            if let Some((mut n0, mut p0)) = big_peaks.first().copied() {
                for (n, p) in &big_peaks {
                    if *p < p0 {
                        n0 = *n;
                        p0 = *p;
                        continue;
                    }
                    if *p > p0 {
                        return viol(
                            "c09.claim_dependent",
                            format!("{}: count prefix #{} via {} with {} payload bytes: peak memory depends on the claimed count: {} bytes for N={} but {} bytes for N={}", s.name, pi, src.describe(), payload, p0, n0, p, n),
                        );
                    }
                }
                st.probe("claim_independence_checked");
            }
            // A claim the input cannot back must not cost more than the largest claims do: below
            // the chunk capacity the preallocation may be smaller, never larger.
            if let Some(s_big) = big_peaks.iter().map(|x| x.1).max() {
                for (n, p) in &unbacked {
                    if *p > s_big + 4096 {
                        return viol(
                            "c09.claim_dependent",
                            format!("{}: count prefix #{} via {} with {} payload bytes: an unbacked claim of N={} makes the decoder request a peak of {} bytes, more than the {} bytes of the largest claims: memory follows the claimed count", s.name, pi, src.describe(), payload, n, p, s_big),
                        );
                    }
                }
                st.probe("unbacked_small_claims_checked");
            }
        }
        st.sample(|| json!({"subject": s.name, "value": short(v), "encoding": hex_short(&enc), "count_positions": positions.len(), "payload": payload, "source": src.describe()}));
        Ok(())
    }
}

/// Random damage runs (as in C03) under allocation accounting.
pub struct AllocMass;

impl Scenario for AllocMass {
    fn name(&self) -> &'static str {
        "alloc_mass"
    }
    fn property(&self) -> &'static str {
        "C09"
    }
    fn level(&self) -> &'static str {
        "fault_enumeration"
    }
    fn rule(&self) -> &'static str {
        "additionally: seeded damaged / truncated / random byte strings for all subjects through drawn benign sources under the accounting allocator, oracle (ii) and (iii) only"
    }
    fn cases(&self, tier: Tier) -> u64 {
        tiered(tier, 1_500_000, 60_000_000)
    }
    fn gen(&self, seed: u64, idx: u64, _tier: Tier) -> Plan {
        let mut rng = Rng::for_case(seed, "alloc_mass", idx);
        loop {
            let s = pick_subject(&mut rng, &|s| !s.heavy);
            let mut p = Plan::new("alloc_mass", s.name);
            let fam = *rng.pick(&[Family::Damaged, Family::Damaged, Family::Truncated, Family::Random, Family::ValidSuffix]);
            gen_bytes_family(&mut rng, s, &mut p, false, fam);
            if s.empty_elem {
                let b = plan_bytes(&p);
                if needs_isolation(s, &b) || slow_by_count(s, &b) {
                    continue;
                }
            }
            p.sources.push(gen_benign_source(&mut rng, true));
            return p;
        }
    }
    fn run(&self, plan: &Plan, st: &mut Stats) -> Verdict {
        let s = catalogue().get(&plan.subject);
        let bytes = plan_bytes(plan);
        let src = plan.source0();
        let out = (s.decode)(&bytes, &src, Mode::Decode);
        st.note(salt(&[s.name, &src.describe(), if out.res.is_ok() { "ok" } else { "err" }]), &out.trace, bytes.len() > 1);
        let bound = linear_bound(s, bytes.len());
        if out.window.peak as usize > bound {
            return viol("c09.linear_bound", format!("{}: {} input bytes {} via {}: decoder requested a peak of {} bytes (largest single request {}), bound {}", s.name, bytes.len(), hex_short(&bytes), src.describe(), out.window.peak, out.window.largest, bound));
        }
        st.sample(|| json!({"subject": s.name, "bytes": hex_short(&bytes), "source": src.describe(), "peak": out.window.peak, "requests": out.window.requests}));
        Ok(())
    }
}
