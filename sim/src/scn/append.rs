//! C15 — appending to an encoded sequence equals re-encoding the whole.
//! A stored blob is mutated by a history of append_or_new calls and must stay equal to the
//! re-encoding of a reference model; its count prefix can be damaged on disk.

use super::*;
use crate::engine::*;
use crate::model::{compact_bytes, ref_encode, Dec, Rej};
use crate::modelled::Modelled;
use crate::types::EnumData;
use parity_scale_codec::{Encode, EncodeAppend, EncodeLike};
use serde_json::json;
use std::collections::VecDeque;

trait AItem: Encode + EncodeLike + Clone + Modelled {
    fn make(i: u64) -> Self;
}
impl AItem for u8 {
    fn make(i: u64) -> Self {
        (i * 7 + 1) as u8
    }
}
impl AItem for u32 {
    fn make(i: u64) -> Self {
        (i as u32).wrapping_mul(2654435761)
    }
}
impl AItem for String {
    fn make(i: u64) -> Self {
        let n = (i % 7) as usize;
        let c = ["a", "é", "中", "😀"][(i % 4) as usize];
        c.repeat(n)
    }
}
impl AItem for Vec<u8> {
    fn make(i: u64) -> Self {
        vec![i as u8; (i % 5) as usize]
    }
}
impl AItem for () {
    fn make(_: u64) -> Self {}
}
impl AItem for crate::types::Unit1 {
    fn make(_: u64) -> Self {
        crate::types::Unit1::Only
    }
}
impl AItem for crate::types::Unit9 {
    fn make(_: u64) -> Self {
        crate::types::Unit9::Only
    }
}
impl AItem for EnumData {
    fn make(i: u64) -> Self {
        match i % 4 {
            0 => EnumData::A,
            1 => EnumData::B(i as u8),
            2 => EnumData::C { x: i as u16, y: vec![1; (i % 3) as usize] },
            _ => EnumData::D(if i % 8 < 4 { None } else { Some(i as u32) }, i % 2 == 0),
        }
    }
}

const ITEM_TYPES: [&str; 8] = ["u8", "u32", "String", "Vec<u8>", "()", "EnumData", "Unit1", "Unit9"];

pub struct Append;

fn expected_blob<T: AItem>(count: u64) -> Vec<u8> {
    let mut out = Vec::new();
    compact_bytes(count as u128, &mut out);
    if !T::EMPTY {
        let sch = T::schema();
        for i in 0..count {
            out.extend_from_slice(&ref_encode(&sch, &T::make(i).to_model()));
        }
    }
    out
}

fn do_append<T: AItem, C: EncodeAppend<Item = T>>(blob: Vec<u8>, first: u64, n: u64, form: u64) -> Result<Vec<u8>, String> {
    let e = |e: parity_scale_codec::Error| e.to_string().chars().take(120).collect::<String>();
    if T::EMPTY {
        // zero-sized items: honest ExactSizeIterator of any length without materialising it
        return match form % 2 {
            0 => C::append_or_new(blob, (0..n as usize).map(|_| T::make(0))).map_err(e),
            _ => {
                if n <= 100_000 {
                    C::append_or_new(blob, vec![T::make(0); n as usize]).map_err(e)
                } else {
                    C::append_or_new(blob, (0..n as usize).map(|_| T::make(0))).map_err(e)
                }
            },
        };
    }
    let items: Vec<T> = (first..first + n).map(T::make).collect();
    match form % 5 {
        0 => C::append_or_new(blob, &items[..]).map_err(e),
        1 => C::append_or_new(blob, items).map_err(e),
        2 if n == 1 => C::append_or_new(blob, std::iter::once(&items[0])).map_err(e),
        3 => C::append_or_new(blob, items.into_iter().map(Box::new).collect::<Vec<Box<T>>>()).map_err(e),
        _ => C::append_or_new(blob, items.iter()).map_err(e),
    }
}

fn run_history<T: AItem, C: EncodeAppend<Item = T>>(plan: &Plan, st: &mut Stats) -> Verdict {
    let mut blob: Vec<u8>;
    let mut count: u64;
    let start = &plan.ops[0];
    let mut damaged = false;
    match start.b {
        0 => {
            blob = Vec::new();
            count = 0;
        },
        1 => {
            count = start.a;
            blob = expected_blob::<T>(count);
        },
        _ => {
            blob = plan.bytes.as_ref().map(|b| b.0.clone()).unwrap_or_default();
            count = 0;
            damaged = true;
        },
    }
    let mut trace = crate::seams::Trace::new();
    for (i, op) in plan.ops.iter().enumerate().skip(1) {
        let n = op.a;
        let before = blob.clone();
        let prefix_valid = if before.is_empty() { None } else { Some(Dec::new(&before).compact_u32()) };
        let res = do_append::<T, C>(blob, count, n, op.b);
        trace.ev(crate::seams::EvK::Write, n as usize);
        if damaged {
            match (&prefix_valid, &res) {
                (Some(Err(Rej::Reject)), Ok(b)) => {
                    return viol("c15.accepts_invalid_prefix", format!("{}: blob {} does not begin with a valid Compact<u32> count but appending {} items returned Ok({})", plan.subject, hex_short(&before), n, hex_short(b)));
                },
                (Some(Ok(c)), Ok(b)) => {
                    // valid prefix over arbitrary content: the new count must be c + n, the old
                    // payload must be preserved
                    let mut d = Dec::new(b);
                    match d.compact_u32() {
                        Ok(nc) if nc == c + n => {},
                        other => return viol("c15.wrong_count", format!("{}: blob {} (count {}) + {} items gives {} with count {:?}", plan.subject, hex_short(&before), c, n, hex_short(b), other)),
                    }
                    st.probe("damaged_start_valid_prefix");
                },
                (Some(Ok(c)), Err(e)) => {
                    if c + n <= u32::MAX as u64 {
                        return viol("c15.rejects_valid_prefix", format!("{}: blob {} has the valid count {} but appending {} items fails: {}", plan.subject, hex_short(&before), c, n, e));
                    }
                },
                _ => {
                    st.probe("damaged_start_rejected");
                },
            }
            trace.fire("eof");
            st.note(salt(&[&plan.subject, "damaged", if res.is_ok() { "ok" } else { "err" }]), &trace, true);
            return Ok(());
        }
        let new_count = count + n;
        if new_count > u32::MAX as u64 {
            match res {
                Ok(b) => {
                    return viol("c15.overflow_not_reported", format!("{}: appending {} items to a sequence of {} (total {} > u32::MAX) returned Ok with blob {} instead of an error (op {})", plan.subject, n, count, new_count, hex_short(&b), i));
                },
                Err(_) => {
                    st.probe("overflow_reported");
                    st.note(salt(&[&plan.subject, "overflow"]), &trace, true);
                    return Ok(());
                },
            }
        }
        match res {
            Err(e) => return viol("c15.append_failed", format!("{}: appending {} items to a sequence of {} failed: {} (op {})", plan.subject, n, count, e, i)),
            Ok(b) => {
                let want = expected_blob::<T>(new_count);
                if b != want {
                    let at = b.iter().zip(&want).position(|(x, y)| x != y).unwrap_or(b.len().min(want.len()));
                    return viol("c15.blob_mismatch", format!("{}: after appending {} items to a sequence of {} (form {}, op {}): blob has {} bytes, re-encoding {} bytes, first difference at offset {}: got {} want {}", plan.subject, n, count, op.b, i, b.len(), want.len(), at, hex_short(&b[at.saturating_sub(4)..(at + 12).min(b.len())]), hex_short(&want[at.saturating_sub(4)..(at + 12).min(want.len())])));
                }
                let w_old = width(count);
                let w_new = width(new_count);
                if w_old != w_new && !before.is_empty() {
                    st.probe("prefix_width_changed");
                }
                if before.is_empty() {
                    st.probe("append_to_empty_input");
                }
                blob = b;
                count = new_count;
            },
        }
    }
    st.note(salt(&[&plan.subject, &plan.param("fix_target").to_string(), &width(count).to_string(), &plan.ops.len().to_string()]), &trace, true);
    st.sample(|| json!({"item_type": plan.subject, "target": if plan.param("fix_target") == 0 { "Vec" } else { "VecDeque" }, "ops": plan.ops.iter().map(|o| format!("{}({},{})", o.op, o.a, o.b)).collect::<Vec<_>>(), "final_count": count, "final_blob_len": blob.len()}));
    Ok(())
}

fn width(n: u64) -> usize {
    if n < 64 {
        1
    } else if n < (1 << 14) {
        2
    } else if n < (1 << 30) {
        4
    } else {
        5
    }
}

const BOUNDS: [u64; 3] = [64, 1 << 14, 1 << 30];

impl Scenario for Append {
    fn name(&self) -> &'static str {
        "append"
    }
    fn property(&self) -> &'static str {
        "C15"
    }
    fn level(&self) -> &'static str {
        "exploration"
    }
    fn rule(&self) -> &'static str {
        "seeded histories of 1..12 append_or_new calls on a stored blob mirrored by a reference model (count + deterministic items): item types u8, u32, String, Vec<u8>, (), derived enum, two zero-sized-in-memory enums with a one-byte encoding; targets Vec and VecDeque; item forms &[T], Vec<T> by value, iter::once, Box<T> items, iterator of references, honest ExactSizeIterator of unit items; start from empty input or from the encoding of a sequence whose length sits on/around 63|64, 2^14, 2^30 (2^30 and beyond only for unit items; 2^14 for u8/unit); batches of size 0, 1, small, or exactly enough to reach / cross the next prefix-width boundary; dedicated histories around 2^32 (total exactly u32::MAX, one beyond, batch lengths >= 2^32); blobs whose count prefix was damaged (non-canonical, truncated, over-wide); oracle after every call: blob == compact(count) ++ reference encodings of all items, Err exactly when the total exceeds u32::MAX or the prefix is not a valid Compact<u32>; non-trivial = every history (at least one append executed)"
    }
    fn cases(&self, tier: Tier) -> u64 {
        tiered(tier, 300_000, 10_000_000)
    }
    fn gen(&self, seed: u64, idx: u64, _tier: Tier) -> Plan {
        let mut rng = Rng::for_case(seed, "append", idx);
        // dedicated histories around 2^32 with unit items (slow ones: a 2^32-item batch takes seconds)
        if idx < 12 {
            let mut p = Plan::new("append", "()");
            p.set("fix_target", (idx % 2) as i64);
            let m = u32::MAX as u64;
            let (start, batches): (u64, Vec<u64>) = match idx {
                0 => (3, vec![(1 << 32) + 2]),
                1 => (m - 5, vec![5]),
                2 => (m - 5, vec![6]),
                3 => (m, vec![0, 1]),
                4 => (0, vec![1 << 32]),
                5 => (1, vec![(1 << 33) + 7]),
                6 => ((1 << 30) - 1, vec![1, m - (1 << 30)]),
                7 => (m - 1, vec![1, 0, 1]),
                8 => (100, vec![m - 100, 1]),
                9 => (m, vec![(1 << 32) - 1]),
                10 => (5, vec![(1 << 32) - 6, 1]),
                _ => (0, vec![m, 1]),
            };
            p.ops.push(Op { op: "start".into(), a: start, b: if start == 0 && idx % 3 == 1 { 0 } else { 1 }, v: None });
            for b in batches {
                p.ops.push(Op { op: "append".into(), a: b, b: 0, v: None });
            }
            return p;
        }
        let ty = *rng.pick(&ITEM_TYPES);
        let mut p = Plan::new("append", ty);
        p.set("fix_target", rng.below(2) as i64);
        let unit = ty == "()";
        if rng.chance(1, 8) {
            // damaged count prefix
            let mut b = Vec::new();
            match rng.below(9) {
                6 => b = vec![0x07, 0x05, 0x00, 0x00, 0x80, 0x01],
                7 => b = vec![*rng.pick(&[0x07u8, 0x0b, 0x0f, 0x13, 0x33, 0xff]), rng.byte(), rng.byte(), rng.byte(), 0x40 | rng.byte(), rng.byte(), rng.byte()],
                8 => b = vec![0x03, rng.byte(), rng.byte(), rng.byte(), rng.byte() & 0x3f],
                0 => b = super::bytesgen::compact_variants(&mut rng, 5),
                1 => b = vec![0xfd],
                2 => b = vec![0x03, 0xff, 0xff],
                3 => b = vec![0x07, 1, 2, 3, 4, 5],
                4 => {
                    let v = rng.below(100000) as u128;
                    b = super::bytesgen::compact_variants(&mut rng, v)
                },
                _ => b = vec![0xfe, 0xff, 0xff, 0xff],
            }
            for _ in 0..rng.range(0, 6) {
                b.push(rng.byte());
            }
            p.bytes = Some(HexBytes(b));
            p.ops.push(Op { op: "start".into(), a: 0, b: 2, v: None });
            p.ops.push(Op { op: "append".into(), a: rng.range(0, 3), b: rng.below(5), v: None });
            return p;
        }
        // start length on / around a boundary
        let max_real: u64 = if unit { u64::MAX } else if ty == "u8" { 1 << 15 } else { 200 };
        let start = match rng.below(6) {
            0 => 0,
            1 | 2 | 3 => {
                let b = *rng.pick(&BOUNDS);
                let s = (b as i64 + rng.range(0, 5) as i64 - 3).max(0) as u64;
                if s <= max_real {
                    s
                } else {
                    60 + rng.below(8)
                }
            },
            _ => rng.below(70),
        };
        let kind = if start == 0 && rng.chance(1, 2) { 0 } else { 1 };
        p.ops.push(Op { op: "start".into(), a: start, b: kind, v: None });
        let mut count = start;
        let nops = rng.range(1, 12);
        for _ in 0..nops {
            let next_bound = BOUNDS.iter().copied().find(|b| *b > count).unwrap_or(u32::MAX as u64 + 1);
            let to_bound = next_bound.saturating_sub(count);
            let mut n = match rng.below(8) {
                0 => 0,
                1 | 2 => 1,
                3 => rng.range(2, 9),
                4 if to_bound <= 70_000 || unit => to_bound,
                5 if to_bound <= 70_000 || unit => to_bound.saturating_sub(1),
                6 if to_bound <= 70_000 || unit => to_bound + 1,
                _ => rng.range(0, 4),
            };
            if !unit && count + n > max_real + 70 {
                n = 1;
            }
            if unit && n > 100_000 && count + n > (1 << 31) {
                n = 1;
            }
            // iterating a batch of 2^30 unit items takes about a second: keep such jumps rare
            if n > (1 << 22) && !rng.chance(1, 20) {
                n = 1;
            }
            let form = if n == 1 && rng.chance(1, 3) { 2 } else { rng.below(5) };
            p.ops.push(Op { op: "append".into(), a: n, b: form, v: None });
            count += n;
        }
        p
    }
    fn run(&self, plan: &Plan, st: &mut Stats) -> Verdict {
        let vd = plan.param("fix_target") == 1;
        macro_rules! go {
            ($t:ty) => {
                if vd {
                    run_history::<$t, VecDeque<$t>>(plan, st)
                } else {
                    run_history::<$t, Vec<$t>>(plan, st)
                }
            };
        }
        match plan.subject.as_str() {
            "u8" => go!(u8),
            "u32" => go!(u32),
            "String" => go!(String),
            "Vec<u8>" => go!(Vec<u8>),
            "()" => go!(()),
            "EnumData" => go!(EnumData),
            "Unit1" => go!(crate::types::Unit1),
            "Unit9" => go!(crate::types::Unit9),
            other => panic!("harness: unknown item type {other}"),
        }
    }
}
