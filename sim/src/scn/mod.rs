//! Scenarios (one per claimed property) and shared plan-generation helpers.

use crate::engine::{Scenario, Tier};
use crate::model::{Gen, V};
use crate::plan::*;
use crate::prng::Rng;
use crate::subjects::{catalogue, Subject};

pub mod alloc;
pub mod append;
pub mod bytesgen;
pub mod corrupt;
pub mod depth;
pub mod frames;
pub mod history;
pub mod ledger;
pub mod memlimit;
pub mod sinks;
pub mod skip;
pub mod stacks;
pub mod wire;

pub fn all() -> Vec<&'static dyn Scenario> {
    vec![&wire::Wire, &corrupt::Corrupt, &corrupt::CorruptSweep, &corrupt::BitLimit, &corrupt::BigBox, &stacks::Stacks, &stacks::Count, &skip::Skip, &frames::Frames, &sinks::Sinks, &alloc::Alloc, &alloc::AllocMass, &ledger::LedgerScn, &depth::Depth, &depth::DeepStack, &memlimit::MemLimit, &append::Append, &history::History, &history::Reencode]
}

pub fn by_name(n: &str) -> Option<&'static dyn Scenario> {
    all().into_iter().find(|s| s.name() == n)
}

pub fn for_property(p: &str) -> Vec<&'static dyn Scenario> {
    all().into_iter().filter(|s| s.property() == p).collect()
}

/// Case-count helper honouring SCALESIM_CASE_CAP (used by selftest).
pub fn cap(n: u64) -> u64 {
    match std::env::var("SCALESIM_CASE_CAP").ok().and_then(|s| s.parse::<u64>().ok()) {
        Some(c) => n.min(c),
        None => n,
    }
}

pub fn tiered(tier: Tier, quick: u64, thorough: u64) -> u64 {
    cap(match tier {
        Tier::Quick => quick,
        Tier::Thorough => thorough,
    })
}

/// Picks a subject; heavy ones rarely.
pub fn pick_subject<'a>(rng: &mut Rng, filter: &dyn Fn(&Subject) -> bool) -> &'a Subject {
    let cat = catalogue();
    loop {
        let s = &cat.list[rng.usize_below(cat.list.len())];
        if !filter(s) {
            continue;
        }
        if s.heavy && !rng.chance(1, 40) {
            continue;
        }
        return s;
    }
}

/// Boundary-biased value; `big` allows one sequence around the 16 KiB chunk window.
pub fn gen_value(rng: &mut Rng, s: &Subject, big: bool) -> V {
    let budget = if big { 60_000 } else { *rng.pick(&[6usize, 20, 60, 200]) };
    let mut g = Gen::new(rng, budget, big);
    g.gen(&s.schema)
}

pub fn gen_chunks(rng: &mut Rng) -> Vec<u32> {
    match rng.below(7) {
        0 => vec![1],
        1 => vec![2],
        2 => (0..rng.range(2, 8)).map(|_| rng.range(1, 5) as u32).collect(),
        3 => (0..rng.range(2, 8)).map(|_| rng.range(1, 64) as u32).collect(),
        4 => vec![rng.range(1000, 20000) as u32, 1, rng.range(1, 9) as u32],
        5 => vec![16384, 1, 16383, 3],
        _ => vec![],
    }
}

pub fn gen_eintr(rng: &mut Rng) -> Vec<u32> {
    match rng.below(4) {
        0 => vec![],
        1 => vec![1],
        _ => {
            let mut v: Vec<u32> = (0..rng.range(1, 4)).map(|_| rng.range(1, 30) as u32).collect();
            v.sort();
            v.dedup();
            v
        },
    }
}

pub fn gen_layers(rng: &mut Rng, max: usize) -> Vec<Layer> {
    let n = match rng.below(6) {
        0 | 1 | 2 => 0,
        3 => 1,
        4 => 2,
        _ => 3,
    }
    .min(max);
    (0..n)
        .map(|_| match rng.below(3) {
            0 => Layer::Counted,
            1 => Layer::Depth(u32::MAX),
            _ => Layer::Mem(u64::MAX),
        })
        .collect()
}

/// A source with benign nondeterminism only (must be transparent).
pub fn gen_benign_source(rng: &mut Rng, allow_from_bytes: bool) -> SourceSpec {
    let base = match rng.below(if allow_from_bytes { 9 } else { 8 }) {
        0 | 1 => Base::Slice,
        2 => Base::Cursor,
        3 | 4 => Base::SimRead,
        5 | 6 | 7 => Base::SimInput,
        _ => Base::FromBytes,
    };
    let mut s = SourceSpec::with_base(base);
    match base {
        Base::SimRead => {
            s.chunks = gen_chunks(rng);
            s.eintr = gen_eintr(rng);
        },
        Base::SimInput => {
            s.known_len = rng.chance(1, 2);
            s.own_read_byte = rng.chance(1, 2);
        },
        _ => {},
    }
    s.layers = gen_layers(rng, 3);
    s
}

pub fn gen_sink(rng: &mut Rng) -> SinkSpec {
    let kind = *rng.pick(&[SinkKind::Owned, SinkKind::ToVec, SinkKind::Chunk, SinkKind::Plain, SinkKind::DynChunk, SinkKind::SimWrite, SinkKind::SimWrite, SinkKind::Cursor, SinkKind::BufWriter, SinkKind::UsingEncoded]);
    let mut s = SinkSpec { kind, chunks: vec![], eintr: vec![] };
    match kind {
        SinkKind::SimWrite => {
            s.chunks = gen_chunks(rng);
            s.eintr = gen_eintr(rng);
        },
        SinkKind::BufWriter => s.chunks = vec![rng.range(1, 40) as u32],
        _ => {},
    }
    s
}

/// Suffix bytes biased to look like valid prefixes.
pub fn gen_suffix(rng: &mut Rng) -> Vec<u8> {
    let n = match rng.below(4) {
        0 => 0,
        1 => 1,
        _ => rng.range(0, 40) as usize,
    };
    (0..n)
        .map(|_| {
            let b = *rng.pick(&[0u8, 1, 2, 4, 0xfc, 0xff, 3, 0x80, 7]);
            if rng.chance(1, 4) {
                rng.byte()
            } else {
                b
            }
        })
        .collect()
}

pub fn short(v: &V) -> String {
    let s = format!("{:?}", v);
    if s.len() > 160 {
        format!("{}...({} chars)", &s[..160], s.len())
    } else {
        s
    }
}

pub fn hex_short(b: &[u8]) -> String {
    let h = crate::model::to_hex(b);
    if h.len() > 120 {
        format!("{}...({} bytes)", &h[..120], b.len())
    } else {
        h
    }
}
