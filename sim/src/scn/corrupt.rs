//! C03 — the decoder accepts exactly the SCALE language and is total on any bytes.
//! Stored / transmitted encodings are hit by storage faults and delivered through arbitrary
//! benign sources; the oracle is the independent reference decoder; process survival is observed
//! by the supervising driver.

use super::bytesgen::*;
use super::*;
use crate::engine::*;
use crate::model::{ref_decode, Rej};
use crate::subjects::{DecOut, Mode};
use serde_json::json;

/// Compares a real decode outcome with the reference decoder.
pub fn model_compare(s: &Subject, bytes: &[u8], real: &Result<V, String>, taken: usize, st: &mut Stats, prefix: &str) -> Verdict {
    let model = ref_decode(&s.schema, bytes);
    match (model, real) {
        (Err(Rej::GiveUp), _) => {
            st.skip("model_gave_up_on_depth");
            Ok(())
        },
        (Ok((mv, mc)), Ok(rv)) => {
            if *rv != mv {
                return viol(&format!("{prefix}.value_mismatch"), format!("{}: bytes {} decode to {} but the specification gives {}", s.name, hex_short(bytes), short(rv), short(&mv)));
            }
            if taken != mc {
                return viol(&format!("{prefix}.consumed_mismatch"), format!("{}: bytes {}: decoder consumed {} bytes, specification {}", s.name, hex_short(bytes), taken, mc));
            }
            st.probe("accepted");
            Ok(())
        },
        (Err(Rej::Reject), Ok(rv)) => viol(&format!("{prefix}.accepted_malformed"), format!("{}: malformed bytes {} were accepted as {}", s.name, hex_short(bytes), short(rv))),
        (Ok((mv, _)), Err(e)) => viol(&format!("{prefix}.rejected_valid"), format!("{}: valid bytes {} (= {}) were rejected: {}", s.name, hex_short(bytes), short(&mv), e)),
        (Err(Rej::Reject), Err(_)) => {
            st.probe("rejected");
            Ok(())
        },
    }
}

fn rep_too_big(v: &V) -> bool {
    rep_over(v, 65536)
}

fn rep_over(v: &V, lim: u64) -> bool {
    match v {
        V::Rep(n, _) => *n > lim,
        V::Opt(Some(b)) => rep_over(b, lim),
        V::Res(Ok(b)) | V::Res(Err(b)) => rep_over(b, lim),
        V::Seq(x) | V::Tuple(x) | V::Enum(_, x) => x.iter().any(|y| rep_over(y, lim)),
        V::Map(x) => x.iter().any(|(a, b)| rep_over(a, lim) || rep_over(b, lim)),
        _ => false,
    }
}

/// A claimed count above 2^16 for a subject whose elements encode to nothing but allocate:
/// legitimate SCALE, executed in a supervised process of its own (may exhaust memory).
pub fn needs_isolation(s: &Subject, bytes: &[u8]) -> bool {
    if !s.empty_alloc {
        return false;
    }
    crate::model::max_empty_count(&s.schema, bytes) > 65536
}

/// A legitimate claimed count above 2^20 of elements that encode to nothing: decoding takes
/// time proportional to the count (seconds to minutes near 2^32, because every element still
/// costs calls through the simulated input) although nothing is wrong; such cases are thinned
/// by the generators (wire structure: counts of sets / maps included).
pub fn slow_by_count(s: &Subject, bytes: &[u8]) -> bool {
    if !s.empty_elem {
        return false;
    }
    crate::model::max_empty_count(&s.schema, bytes) > (1 << 20)
}

/// Scenarios that decode the same bytes many times (dozens of source stacks, every limit) skip
/// zero-byte-element counts above 2^14 altogether.
pub fn slowish_by_count(s: &Subject, bytes: &[u8]) -> bool {
    if !s.empty_elem {
        return false;
    }
    crate::model::max_empty_count(&s.schema, bytes) > (1 << 14)
}

/// Counts above 2^26 of zero-byte elements are never executed in the mass runs.
pub fn too_slow_by_count(s: &Subject, bytes: &[u8]) -> bool {
    if !s.empty_elem {
        return false;
    }
    crate::model::max_empty_count(&s.schema, bytes) > (1 << 26)
}

pub struct Corrupt;

impl Scenario for Corrupt {
    fn name(&self) -> &'static str {
        "corrupt"
    }
    fn property(&self) -> &'static str {
        "C03"
    }
    fn level(&self) -> &'static str {
        "exploration"
    }
    fn rule(&self) -> &'static str {
        "per case one subject and one byte string: reference encoding of a generated value hit by 1..3 storage faults (70% aimed with the encoder's annotation map: tags, counts, compacts, utf8, variant index, nanos, nonzero, bit length, padding; 30% blind: bit flip, byte set, truncate, extend, duplicate, splice), or valid(+suffix), or a random string over a skewed alphabet; delivered through a drawn benign source; outcome compared with the reference decoder (accept/reject, value, consumed); non-trivial = more than one seam call or a benign fault fired or the string is longer than one byte"
    }
    fn cases(&self, tier: Tier) -> u64 {
        tiered(tier, 4_000_000, 150_000_000)
    }
    fn gen(&self, seed: u64, idx: u64, _tier: Tier) -> Plan {
        let mut rng = Rng::for_case(seed, "corrupt", idx);
        loop {
            let s = pick_subject(&mut rng, &|_| true);
            let mut p = Plan::new("corrupt", s.name);
            let big = rng.chance(1, 40);
            let fam = gen_bytes_into(&mut rng, s, &mut p, big);
            p.set("fix_family", fam as i64);
            p.sources.push(gen_benign_source(&mut rng, true));
            // Cases that need a supervised process of their own are slow (they run until the
            // allocation cap): keep one in 200 of them.
            if s.empty_elem {
                let b = plan_bytes(&p);
                if too_slow_by_count(s, &b) && !needs_isolation(s, &b) {
                    continue;
                }
                if (needs_isolation(s, &b) || slow_by_count(s, &b)) && !rng.chance(1, 200) {
                    continue;
                }
            }
            return p;
        }
    }
    fn isolated(&self, plan: &Plan) -> bool {
        let s = catalogue().get(&plan.subject);
        s.empty_alloc && needs_isolation(s, &plan_bytes(plan))
    }
    fn run(&self, plan: &Plan, st: &mut Stats) -> Verdict {
        let s = catalogue().get(&plan.subject);
        let bytes = plan_bytes(plan);
        let src = plan.source0();
        let out: DecOut = (s.decode)(&bytes, &src, Mode::Decode);
        let class = if out.res.is_ok() { "ok" } else { "err" };
        st.note(salt(&[s.name, &src.describe(), class, &plan.param("fix_family").to_string()]), &out.trace, bytes.len() > 1);
        st.probe(match plan.param("fix_family") {
            0 => "family_valid",
            1 => "family_valid_suffix",
            2 => "family_damaged",
            3 => "family_truncated",
            _ => "family_random",
        });
        let r = model_compare(s, &bytes, &out.res, out.taken, st, "c03");
        st.sample(|| json!({"subject": s.name, "bytes": hex_short(&bytes), "mutations": format!("{:?}", plan.muts), "source": src.describe(), "outcome": match &out.res { Ok(v) => format!("Ok {}", short(v)), Err(e) => format!("Err {e}") }, "trace": out.trace.log_strings()}));
        r
    }
}

/// Complete enumeration: every byte string of length <= 2 for every subject (and length 3 for
/// small-alphabet subjects in the thorough tier), slice input.
pub struct CorruptSweep;

fn small_alphabet(s: &Subject) -> bool {
    use crate::model::S;
    matches!(s.schema, S::Bool | S::Opt(_) | S::Res(..) | S::OptBool | S::Enum(_) | S::Compact(_) | S::NonZeroU(_) | S::NonZeroI(_) | S::Duration | S::Str | S::Bits(..) | S::Named(_))
}

impl Scenario for CorruptSweep {
    fn name(&self) -> &'static str {
        "corrupt_sweep"
    }
    fn property(&self) -> &'static str {
        "C03"
    }
    fn level(&self) -> &'static str {
        "exploration"
    }
    fn rule(&self) -> &'static str {
        "complete enumeration of all byte strings of length 0..=2 for every catalogue subject (length 3 as well for small-alphabet subjects in the thorough tier), decoded from a slice and compared with the reference decoder; one case = one (subject, first byte)"
    }
    fn cases(&self, _tier: Tier) -> u64 {
        cap(catalogue().list.len() as u64 * 256)
    }
    fn gen(&self, _seed: u64, idx: u64, tier: Tier) -> Plan {
        let cat = catalogue();
        let s = &cat.list[(idx / 256) as usize % cat.list.len()];
        let mut p = Plan::new("corrupt_sweep", s.name);
        p.set("fix_first", (idx % 256) as i64);
        p.set("fix_len3", (tier == Tier::Thorough && small_alphabet(s)) as i64);
        p
    }
    fn isolated(&self, _plan: &Plan) -> bool {
        false
    }
    fn run(&self, plan: &Plan, st: &mut Stats) -> Verdict {
        let s = catalogue().get(&plan.subject);
        let first = plan.param("fix_first") as u8;
        let src = SourceSpec::slice();
        let mut buf: Vec<Vec<u8>> = Vec::new();
        if plan.has("fix_bytes") {
            // a minimised single string
        }
        if first == 0 {
            buf.push(vec![]);
        }
        buf.push(vec![first]);
        for b in 0..=255u8 {
            buf.push(vec![first, b]);
        }
        if plan.param("fix_len3") == 1 {
            for b in 0..=255u8 {
                for c in 0..=255u8 {
                    buf.push(vec![first, b, c]);
                }
            }
        }
        // `only` narrows the case to one string (set by the minimiser through p["only"])
        let only = if plan.has("only_len") { Some((plan.param("only_len") as usize, plan.param("only_b") as u8, plan.param("only_c") as u8)) } else { None };
        let mut n = 0u64;
        for bytes in &buf {
            if let Some((l, b, c)) = only {
                if bytes.len() != l || (l >= 2 && bytes[1] != b) || (l >= 3 && bytes[2] != c) {
                    continue;
                }
            }
            if s.empty_alloc && needs_isolation(s, bytes) {
                st.skip("sweep_string_routed_to_isolated_family");
                continue;
            }
            let out = (s.decode)(bytes, &src, Mode::Decode);
            n += 1;
            if let Err(mut v) = model_compare(s, bytes, &out.res, out.taken, st, "c03") {
                v.detail = format!("[sweep] {}", v.detail);
                return Err(v);
            }
        }
        let mut t = crate::seams::Trace::new();
        t.events = n;
        st.note(salt(&[s.name, "sweep", &first.to_string()]), &t, true);
        *st.exhaustive_parts.entry("strings_len_le_2_x_all_subjects".to_string()).or_insert(0) += n;
        st.sample(|| json!({"subject": s.name, "first_byte": first, "strings": n}));
        Ok(())
    }
}

// ------------------------------------------------------------------------------------------
// Bit-length cap against a source that never runs dry (the cap is the only thing that can stop a
// hostile bit count when the payload really is there / the reader is endless).

struct Endless {
    prefix: Vec<u8>,
    pos: usize,
    delivered: u64,
}

impl parity_scale_codec::Input for Endless {
    fn remaining_len(&mut self) -> Result<Option<usize>, parity_scale_codec::Error> {
        Ok(None)
    }
    fn read(&mut self, into: &mut [u8]) -> Result<(), parity_scale_codec::Error> {
        for b in into.iter_mut() {
            *b = if self.pos < self.prefix.len() { self.prefix[self.pos] } else { 0x5a };
            self.pos += 1;
        }
        self.delivered += into.len() as u64;
        Ok(())
    }
}

pub struct BitLimit;

fn bits_len<T: parity_scale_codec::Decode>(prefix: &[u8], len_of: fn(&T) -> usize) -> (Result<usize, String>, u64) {
    let mut e = Endless { prefix: prefix.to_vec(), pos: 0, delivered: 0 };
    let r = T::decode(&mut e);
    (r.map(|v| len_of(&v)).map_err(|e| e.to_string().chars().take(100).collect()), e.delivered)
}

impl Scenario for BitLimit {
    fn name(&self) -> &'static str {
        "bitlimit"
    }
    fn property(&self) -> &'static str {
        "C03"
    }
    fn level(&self) -> &'static str {
        "exploration"
    }
    fn rule(&self) -> &'static str {
        "additionally: bit sequences (5 store/order combinations, BitBox, nested in a tuple) decoded from an endless unknown-length source with bit counts 2^29-2, 2^29-1 (largest legal: must succeed with exactly that many bits), 2^29, 2^29+1, 2^30, 2^32-1 (must be rejected before the payload is read)"
    }
    fn cases(&self, _tier: Tier) -> u64 {
        cap(7 * 6)
    }
    fn gen(&self, _seed: u64, idx: u64, _tier: Tier) -> Plan {
        let kinds = ["BitVec<u8, Lsb0>", "BitVec<u8, Msb0>", "BitVec<u16, Lsb0>", "BitVec<u32, Msb0>", "BitVec<u64, Lsb0>", "BitBox<u8, Msb0>", "(u8, BitVec<u16, Lsb0>)"];
        let counts: [i64; 6] = [(1 << 29) - 2, (1 << 29) - 1, 1 << 29, (1 << 29) + 1, 1 << 30, u32::MAX as i64];
        let mut p = Plan::new("bitlimit", kinds[(idx as usize / 6) % 7]);
        p.set("fix_bits", counts[idx as usize % 6]);
        p
    }
    fn run(&self, plan: &Plan, st: &mut Stats) -> Verdict {
        use bitvec::prelude::*;
        let bits = plan.param("fix_bits") as u64;
        let mut prefix = Vec::new();
        if plan.subject.starts_with('(') {
            prefix.push(7);
        }
        crate::model::compact_bytes(bits as u128, &mut prefix);
        let (r, delivered) = match plan.subject.as_str() {
            "BitVec<u8, Lsb0>" => bits_len::<BitVec<u8, Lsb0>>(&prefix, |v| v.len()),
            "BitVec<u8, Msb0>" => bits_len::<BitVec<u8, Msb0>>(&prefix, |v| v.len()),
            "BitVec<u16, Lsb0>" => bits_len::<BitVec<u16, Lsb0>>(&prefix, |v| v.len()),
            "BitVec<u32, Msb0>" => bits_len::<BitVec<u32, Msb0>>(&prefix, |v| v.len()),
            "BitVec<u64, Lsb0>" => bits_len::<BitVec<u64, Lsb0>>(&prefix, |v| v.len()),
            "BitBox<u8, Msb0>" => bits_len::<BitBox<u8, Msb0>>(&prefix, |v| v.len()),
            _ => bits_len::<(u8, BitVec<u16, Lsb0>)>(&prefix, |v| v.1.len()),
        };
        let mut t = crate::seams::Trace::new();
        t.events = 2;
        t.fire("unknown_len");
        st.note(salt(&[&plan.subject, &bits.to_string(), if r.is_ok() { "ok" } else { "err" }]), &t, true);
        let legal = bits <= (1 << 29) - 1;
        match (&r, legal) {
            (Ok(n), true) if *n as u64 == bits => {},
            (Ok(n), true) => return viol("c03.value_mismatch", format!("{}: bit count {} decoded to a sequence of {} bits", plan.subject, bits, n)),
            (Err(e), true) => return viol("c03.rejected_valid", format!("{}: a bit sequence of {} bits (<= 2^29-1) with its payload present was rejected: {}", plan.subject, bits, e)),
            (Ok(n), false) => return viol("c03.accepted_malformed", format!("{}: a bit count of {} (> 2^29-1) was accepted ({} bits decoded, {} bytes read from an endless source)", plan.subject, bits, n, delivered)),
            (Err(_), false) => {
                if delivered > 64 {
                    st.probe("rejected_only_after_reading_payload");
                }
            },
        }
        st.sample(|| json!({"subject": plan.subject, "bit_count": bits, "outcome": format!("{:?}", r), "bytes_read": delivered}));
        Ok(())
    }
}

// ------------------------------------------------------------------------------------------
// Large values decoded in place on a small stack (never aborts / overflows on *valid* input).

#[derive(parity_scale_codec::Encode, parity_scale_codec::Decode)]
#[repr(transparent)]
pub struct TrBig(pub [[u8; 300_000]; 2]);

pub struct BigBox;

fn fnv_bytes(b: &[u8]) -> u64 {
    let mut h: u64 = 0xcbf2_9ce4_8422_2325;
    for x in b {
        h = (h ^ *x as u64).wrapping_mul(0x0000_0100_0000_01B3);
    }
    h
}

impl Scenario for BigBox {
    fn name(&self) -> &'static str {
        "bigbox"
    }
    fn property(&self) -> &'static str {
        "C03"
    }
    fn level(&self) -> &'static str {
        "exploration"
    }
    fn rule(&self) -> &'static str {
        "additionally: valid encodings of large in-place shapes (Box / Rc / Arc of arrays whose elements are themselves 300 KB arrays, a boxed repr(transparent) newtype of such, nested three deep) decoded on a thread with a 256 KiB stack from slice and unknown-length input: must succeed with the right content and the process must survive (a stack overflow kills the worker and is reported by the supervisor)"
    }
    fn cases(&self, _tier: Tier) -> u64 {
        cap(6 * 2)
    }
    fn gen(&self, _seed: u64, idx: u64, _tier: Tier) -> Plan {
        let kinds = ["Box<[[u8; 300000]; 3]>", "Rc<[[u8; 300000]; 3]>", "Arc<[[u16; 150000]; 2]>", "Box<TrBig>", "Box<[[[u8; 100000]; 3]; 2]>", "Box<[TrBig; 2]>"];
        let mut p = Plan::new("bigbox", kinds[(idx as usize / 2) % kinds.len()]);
        p.set("fix_unknown_len", (idx % 2) as i64);
        p
    }
    fn run(&self, plan: &Plan, st: &mut Stats) -> Verdict {
        use parity_scale_codec::Decode;
        use std::rc::Rc;
        use std::sync::Arc;
        let kind = plan.subject.clone();
        let unknown = plan.param("fix_unknown_len") == 1;
        let len: usize = match kind.as_str() {
            "Box<[[u8; 300000]; 3]>" | "Rc<[[u8; 300000]; 3]>" => 900_000,
            "Arc<[[u16; 150000]; 2]>" | "Box<TrBig>" | "Box<[[[u8; 100000]; 3]; 2]>" => 600_000,
            _ => 1_200_000,
        };
        let data: Vec<u8> = (0..len).map(|i| (i as u32).wrapping_mul(2654435761).to_le_bytes()[3]).collect();
        let want = fnv_bytes(&data);
        let d2 = data.clone();
        let h = std::thread::Builder::new().stack_size(256 << 10).spawn(move || -> Result<u64, String> {
            fn go<T: Decode>(data: &[u8], unknown: bool, sum: fn(&T) -> u64) -> Result<u64, String> {
                let r = if unknown {
                    let mut rd = parity_scale_codec::IoReader(std::io::Cursor::new(data));
                    T::decode(&mut rd)
                } else {
                    T::decode(&mut &data[..])
                };
                r.map(|v| sum(&v)).map_err(|e| e.to_string().chars().take(100).collect())
            }
            match kind.as_str() {
                "Box<[[u8; 300000]; 3]>" => go::<Box<[[u8; 300000]; 3]>>(&d2, unknown, |v| fnv_bytes(v.as_flattened())),
                "Rc<[[u8; 300000]; 3]>" => go::<Rc<[[u8; 300000]; 3]>>(&d2, unknown, |v| fnv_bytes(v.as_flattened())),
                "Arc<[[u16; 150000]; 2]>" => go::<Arc<[[u16; 150000]; 2]>>(&d2, unknown, |v| {
                    let mut h: u64 = 0xcbf2_9ce4_8422_2325;
                    for x in v.as_flattened() {
                        for b in x.to_le_bytes() {
                            h = (h ^ b as u64).wrapping_mul(0x0000_0100_0000_01B3);
                        }
                    }
                    h
                }),
                "Box<TrBig>" => go::<Box<TrBig>>(&d2, unknown, |v| fnv_bytes(v.0.as_flattened())),
                "Box<[[[u8; 100000]; 3]; 2]>" => go::<Box<[[[u8; 100000]; 3]; 2]>>(&d2, unknown, |v| fnv_bytes(v.as_flattened().as_flattened())),
                _ => go::<Box<[TrBig; 2]>>(&d2, unknown, |v| {
                    let mut all = Vec::with_capacity(1_200_000);
                    for t in v.iter() {
                        all.extend_from_slice(t.0.as_flattened());
                    }
                    fnv_bytes(&all)
                }),
            }
        });
        let r = match h {
            Ok(h) => h.join(),
            Err(e) => panic!("harness: cannot spawn thread: {e}"),
        };
        let mut t = crate::seams::Trace::new();
        t.events = 2;
        st.note(salt(&[&plan.subject, if unknown { "unknown" } else { "slice" }]), &t, true);
        match r {
            Err(_) => viol("panic", format!("{}: decoding a valid {}-byte encoding on a 256 KiB stack panicked", plan.subject, len)),
            Ok(Err(e)) => viol("c03.rejected_valid", format!("{}: a valid {}-byte encoding was rejected on a 256 KiB stack: {}", plan.subject, len, e)),
            Ok(Ok(got)) if got != want => viol("c03.value_mismatch", format!("{}: decoded content differs from the {} input bytes", plan.subject, len)),
            Ok(Ok(_)) => {
                st.probe("large_in_place_values_decoded_on_small_stack");
                st.sample(|| json!({"subject": plan.subject, "encoding_len": len, "stack": "256 KiB", "input": if unknown { "IoReader<Cursor>" } else { "slice" }}));
                Ok(())
            },
        }
    }
}
