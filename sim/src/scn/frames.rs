//! C14 — encodings are self-delimiting; consume-all entry points are exact.
//! "Every cut point of the encoding" = EOF injected at every instant of a transfer (torn write,
//! closed connection); concatenation recovery is stream framing.

use super::bytesgen::*;
use super::stacks::gen_light_bytes;
use super::*;
use crate::engine::*;
use crate::model::ref_encode_ann;
use crate::seams::BaseInput;
use crate::subjects::Mode;
use serde_json::json;

pub struct Frames;

impl Scenario for Frames {
    fn name(&self) -> &'static str {
        "frames"
    }
    fn property(&self) -> &'static str {
        "C14"
    }
    fn level(&self) -> &'static str {
        "fault_enumeration"
    }
    fn rule(&self) -> &'static str {
        "three case kinds: (a) one generated value, EOF at EVERY strict cut point of its encoding when it is <= 512 bytes (cuts within 16 bytes of every annotation boundary + 64 spread cuts otherwise), each cut delivered by slice, IoReader<SimRead> (EOF after k bytes) and unknown-length SimInput: must fail; (b) a stream of 2..20 frames of mixed subjects decoded value by value from one benign source, optionally cut at a drawn point: frames before the cut decode to the sent values at the running offsets, the frame containing the cut fails; (c) arbitrary byte strings: decode_all is Ok(v) iff decode is Ok(v) with nothing left, same for decode_all_with_depth_limit vs decode_with_depth_limit at limits 0..=4 and u32::MAX; every cut / frame / equivalence is one sub-run; non-trivial = EOF fault fired or more than one seam call or input longer than one byte"
    }
    fn cases(&self, tier: Tier) -> u64 {
        tiered(tier, 600_000, 20_000_000)
    }
    fn gen(&self, seed: u64, idx: u64, _tier: Tier) -> Plan {
        let mut rng = Rng::for_case(seed, "frames", idx);
        match rng.below(3) {
            0 => {
                // (a) prefixes
                let s = pick_subject(&mut rng, &|_| true);
                let mut p = Plan::new("frames", s.name);
                let big = rng.chance(1, 50);
                let v = gen_value(&mut rng, s, big);
                let (enc, ann) = ref_encode_ann(&s.schema, &v);
                p.value = Some(v);
                p.set("fix_kind", 0);
                if enc.len() > 512 {
                    let mut cuts: Vec<u64> = Vec::new();
                    for a in &ann {
                        for d in 0..=16usize {
                            for base in [a.off, a.off + a.len] {
                                if base + d < enc.len() {
                                    cuts.push((base + d) as u64);
                                }
                                if base >= d && base - d < enc.len() {
                                    cuts.push((base - d) as u64);
                                }
                            }
                        }
                        if cuts.len() > 400 {
                            break;
                        }
                    }
                    for _ in 0..64 {
                        cuts.push(rng.below(enc.len() as u64));
                    }
                    for m in 1..=3u64 {
                        for d in 0..3u64 {
                            let c = 16384 * m + d;
                            if c > 0 && (c as usize) < enc.len() {
                                cuts.push(c);
                                cuts.push(c - 2);
                            }
                        }
                    }
                    cuts.sort();
                    cuts.dedup();
                    p.ops = cuts.into_iter().map(|c| Op { op: "cut".into(), a: c, b: 0, v: None }).collect();
                }
                // SimRead chunking used for the reader-delivered variant
                let mut sr = SourceSpec::with_base(Base::SimRead);
                sr.chunks = gen_chunks(&mut rng);
                p.sources.push(sr);
                p
            },
            1 => {
                // (b) stream of frames
                let mut p = Plan::new("frames", "");
                let k = rng.range(2, 20);
                // one frame in every eighth stream is generated in big mode (sequences of 1..3
                // preallocation chunks +-1), so that a multi-chunk value sits between other frames
                let big_at = if rng.chance(1, 8) { rng.below(k) } else { u64::MAX };
                for i in 0..k {
                    let s = pick_subject(&mut rng, &|s| !s.heavy);
                    let v = gen_value(&mut rng, s, i == big_at);
                    p.msgs.push(Msg { subject: s.name.to_string(), value: v, sink: SinkSpec::owned() });
                }
                p.subject = p.msgs[0].subject.clone();
                p.set("fix_kind", 1);
                // cut: -1 = none, else per-mille position in the stream
                p.set("cut_permille", if rng.chance(1, 3) { -1 } else { rng.below(1000) as i64 });
                p.sources.push(gen_benign_source(&mut rng, true));
                p
            },
            _ => {
                // (c) equivalences on arbitrary strings
                let (mut p, _) = gen_light_bytes(&mut rng, "frames", &|_| true, 80);
                p.set("fix_kind", 2);
                p
            },
        }
    }
    fn run(&self, plan: &Plan, st: &mut Stats) -> Verdict {
        let cat = catalogue();
        match plan.param("fix_kind") {
            0 => {
                let s = cat.get(&plan.subject);
                let v = plan.value.as_ref().expect("harness: frames(a) needs a value");
                // the library's own encoding is what gets cut (the property speaks of "a value's encoding")
                let enc = (s.encode)(v, &SinkSpec::owned()).bytes;
                let cuts: Vec<usize> = if plan.ops.is_empty() { (0..enc.len()).collect() } else { plan.ops.iter().map(|o| o.a as usize).filter(|c| *c < enc.len()).collect() };
                if plan.ops.is_empty() {
                    *st.exhaustive_parts.entry("all_cut_points_of_encodings_le_512_bytes".into()).or_insert(0) += cuts.len() as u64;
                }
                let slice = SourceSpec::slice();
                let mut rd = plan.source0();
                let mut si = SourceSpec::with_base(Base::SimInput);
                si.known_len = false;
                for k in cuts {
                    rd.faults = vec![Fault::EofAt { byte: k as u32 }];
                    si.faults = vec![Fault::EofAt { byte: k as u32 }];
                    for (name, src, data) in [("slice", &slice, &enc[..k]), ("reader", &rd, &enc[..]), ("unknown_len", &si, &enc[..])] {
                        let out = (s.decode)(data, src, Mode::Decode);
                        st.note(salt(&[s.name, name, if out.res.is_ok() { "ok" } else { "err" }]), &out.trace, true);
                        st.fire("eof_at_cut");
                        if let Ok(got) = &out.res {
                            return viol("c14.prefix_accepted", format!("{}: the first {} of {} bytes of the encoding of {} decode successfully (as {}) via {}", s.name, k, enc.len(), short(v), short(got), name));
                        }
                    }
                }
                st.sample(|| json!({"kind": "prefixes", "subject": s.name, "value": short(v), "encoding_len": enc.len(), "cuts": if plan.ops.is_empty() { "all".to_string() } else { format!("{} sampled", plan.ops.len()) }}));
                Ok(())
            },
            1 => {
                let mut wire = Vec::new();
                let mut lens = Vec::new();
                for m in &plan.msgs {
                    let b = (cat.get(&m.subject).encode)(&m.value, &m.sink).bytes;
                    lens.push(b.len());
                    wire.extend_from_slice(&b);
                }
                let total = wire.len();
                let cut = if plan.param("cut_permille") < 0 { total } else { (total as u64 * plan.param("cut_permille") as u64 / 1000) as usize };
                let mut src = plan.source0();
                if src.base == Base::FromBytes {
                    // decode_from_bytes is a whole-buffer entry point: every frame is handed the
                    // rest of the (cut) stream as a shared buffer
                    let avail = &wire[..cut];
                    let mut pos = 0usize;
                    let mut decoded = 0;
                    for (i, m) in plan.msgs.iter().enumerate() {
                        let s = cat.get(&m.subject);
                        let fully_available = pos + lens[i] <= cut;
                        let out = (s.decode)(&avail[pos..], &src, Mode::Decode);
                        st.note(salt(&[&m.subject, "from_bytes_frame", if out.res.is_ok() { "ok" } else { "err" }]), &out.trace, true);
                        if fully_available {
                            match &out.res {
                                Ok(v) if *v == m.value && out.taken == lens[i] => {},
                                Ok(v) => return viol("c14.frame_value", format!("frame {} ({}) of a stream via decode_from_bytes: sent {} ({} bytes) got {} ({} bytes)", i, m.subject, short(&m.value), lens[i], short(v), out.taken)),
                                Err(e) => return viol("c14.frame_failed", format!("frame {} ({}) at offset {} failed via decode_from_bytes although fully present: {}", i, m.subject, pos, e)),
                            }
                            pos += lens[i];
                            decoded += 1;
                        } else {
                            if lens[i] == 0 {
                                continue;
                            }
                            if let Ok(v) = &out.res {
                                return viol("c14.cut_frame_accepted", format!("frame {} ({}) was cut after {} of {} bytes but decode_from_bytes gave {}", i, m.subject, cut - pos, lens[i], short(v)));
                            }
                            st.fire("eof_in_frame");
                            break;
                        }
                    }
                    st.probe("from_bytes_streams");
                    st.sample(|| json!({"kind": "stream", "frames": plan.msgs.iter().map(|m| m.subject.clone()).collect::<Vec<_>>(), "total_len": total, "cut": cut, "decoded_frames": decoded, "source": src.describe()}));
                    return Ok(());
                }
                src.faults.push(Fault::EofAt { byte: cut as u32 });
                let mut base = BaseInput::new(&src, &wire);
                let mut pos = 0usize;
                let mut decoded = 0;
                for (i, m) in plan.msgs.iter().enumerate() {
                    let s = cat.get(&m.subject);
                    let fully_available = pos + lens[i] <= cut;
                    let out = (s.decode_dyn)(base.as_dyn(), &src.layers, Mode::Decode);
                    if fully_available {
                        match &out.res {
                            Ok(v) if *v == m.value => {},
                            Ok(v) => return viol("c14.frame_value", format!("frame {} ({}) of a stream: sent {} got {}", i, m.subject, short(&m.value), short(v))),
                            Err(e) => return viol("c14.frame_failed", format!("frame {} ({}) at offset {} failed although fully present: {}", i, m.subject, pos, e)),
                        }
                        pos += lens[i];
                        if base.taken() != pos {
                            return viol("c14.frame_position", format!("after frame {} ({}): expected offset {}, source at {}", i, m.subject, pos, base.taken()));
                        }
                        decoded += 1;
                    } else {
                        // the frame containing the cut: a strict prefix (possibly empty) of a non-empty encoding
                        if lens[i] == 0 {
                            // an empty encoding is fully available by definition
                            continue;
                        }
                        if let Ok(v) = &out.res {
                            return viol("c14.cut_frame_accepted", format!("frame {} ({}) was cut after {} of {} bytes but decoded as {}", i, m.subject, cut - pos, lens[i], short(v)));
                        }
                        st.fire("eof_in_frame");
                        break;
                    }
                }
                let rep = base.finish();
                st.note(salt(&[&plan.msgs.len().to_string(), &src.describe(), &decoded.to_string()]), &rep.trace, true);
                st.sample(|| json!({"kind": "stream", "frames": plan.msgs.iter().map(|m| m.subject.clone()).collect::<Vec<_>>(), "total_len": total, "cut": cut, "decoded_frames": decoded, "source": src.describe(), "trace": rep.trace.log_strings()}));
                Ok(())
            },
            _ => {
                let s = cat.get(&plan.subject);
                let bytes = plan_bytes(plan);
                let sl = SourceSpec::slice();
                let d = (s.decode)(&bytes, &sl, Mode::Decode);
                let a = (s.decode)(&bytes, &sl, Mode::DecodeAll);
                st.note(salt(&[s.name, "decode_all", if a.res.is_ok() { "ok" } else { "err" }]), &a.trace, bytes.len() > 1);
                let expect = match &d.res {
                    Ok(v) if d.taken == bytes.len() => Some(v.clone()),
                    _ => None,
                };
                check_all(s.name, &bytes, "decode_all", &expect, &a.res)?;
                for l in [0u32, 1, 2, 3, 4, u32::MAX] {
                    let dl = (s.decode)(&bytes, &sl, Mode::DepthDirect(l));
                    let al = (s.decode)(&bytes, &sl, Mode::DecodeAllDepth(l));
                    st.note(salt(&[s.name, "decode_all_depth", &l.min(5).to_string(), if al.res.is_ok() { "ok" } else { "err" }]), &al.trace, bytes.len() > 1);
                    let expect = match &dl.res {
                        Ok(v) if dl.taken == bytes.len() => Some(v.clone()),
                        _ => None,
                    };
                    check_all(s.name, &bytes, &format!("decode_all_with_depth_limit({l})"), &expect, &al.res)?;
                    if l == u32::MAX {
                        // unlimited depth must equal plain decoding
                        match (&d.res, &dl.res) {
                            (Ok(x), Ok(y)) if x == y && d.taken == dl.taken => {},
                            (Err(_), Err(_)) => {},
                            _ => return viol("c14.depth_max_differs", format!("{}: bytes {}: decode_with_depth_limit(u32::MAX) differs from decode", s.name, hex_short(&bytes))),
                        }
                    }
                }
                st.sample(|| json!({"kind": "decode_all", "subject": s.name, "bytes": hex_short(&bytes), "decode": d.res.is_ok(), "taken": d.taken, "decode_all": a.res.is_ok()}));
                Ok(())
            },
        }
    }
}

fn check_all(name: &str, bytes: &[u8], what: &str, expect: &Option<V>, got: &Result<V, String>) -> Verdict {
    match (expect, got) {
        (Some(e), Ok(g)) if e == g => Ok(()),
        (Some(e), Ok(g)) => viol("c14.decode_all_value", format!("{name}: bytes {}: {what} gives {} but decode gives {}", hex_short(bytes), short(g), short(e))),
        (Some(e), Err(err)) => viol("c14.decode_all_rejects", format!("{name}: bytes {}: decode consumes everything and gives {} but {what} fails: {err}", hex_short(bytes), short(e))),
        (None, Ok(g)) => viol("c14.decode_all_accepts", format!("{name}: bytes {}: {what} gives {} although plain decoding fails or leaves input", hex_short(bytes), short(g))),
        (None, Err(_)) => Ok(()),
    }
}
