//! C12 — memory-limited decoding has an exact, meaningful threshold.
//! Each value of the limit L makes a different on_before_alloc_mem announcement the failing one.

use super::alloc as c09;
use super::bytesgen::*;
use super::stacks::gen_light_bytes;
use super::*;
use crate::engine::*;
use crate::model::S;
use crate::subjects::Mode;
use serde_json::json;

pub struct MemLimit;

fn no_heap(s: &S, d: usize) -> bool {
    if d > 6 {
        return false;
    }
    match s {
        S::Seq(..) | S::Set(_) | S::Map(..) | S::Str | S::Bytes | S::Bits(..) | S::Named(_) | S::GArray(..) => false,
        S::Ptr(_, _) => false,
        S::Opt(e) | S::Array(_, e) | S::Range(e) => no_heap(e, d + 1),
        S::Res(a, b) => no_heap(a, d + 1) && no_heap(b, d + 1),
        S::Tuple(f) => f.iter().all(|x| no_heap(x, d + 1)),
        S::Enum(vs) => vs.iter().all(|(_, f)| f.iter().all(|x| no_heap(x, d + 1))),
        _ => true,
    }
}

impl Scenario for MemLimit {
    fn name(&self) -> &'static str {
        "memlimit"
    }
    fn property(&self) -> &'static str {
        "C12"
    }
    fn level(&self) -> &'static str {
        "fault_enumeration"
    }
    fn rule(&self) -> &'static str {
        "per case one DecodeWithMemTracking subject (built-in, derived, generic; all catalogue subjects that implement it), one byte string (honest encoding of a generated value, damaged, truncated, random) and one benign source; step 1: tracked usage U = MemTrackingInput(usize::MAX).used_mem() and the unlimited result R; step 2: EVERY limit L in 0..=U+1 when U <= 600 (quick) / 4096 (thorough), else L in {0,1,U/2,U-1,U,U+1,2U,usize::MAX}, each through T::decode_with_mem_limit on the slice and through the MemTrackingInput layer over the drawn source (alone; inside and outside a depth-limit(max) wrapper; inside and outside a CountedInput); oracle: result(L) in {R, Err}; R Ok and L > U => equal to R; U > 0 and L <= U => Err; U == 0 for subjects without heap containers; U >= bytes of decoded data the value holds on the heap (len*size_of elem, boxed size, string length, half of len*size_of for tree maps/sets, summed over nesting); U identical across sources; one sub-run per (L, entry point); non-trivial = sub-runs with L <= U+1 and U > 0 (an announcement can fail) "
    }
    fn cases(&self, tier: Tier) -> u64 {
        tiered(tier, 250_000, 8_000_000)
    }
    fn gen(&self, seed: u64, idx: u64, tier: Tier) -> Plan {
        let mut rng = Rng::for_case(seed, "memlimit", idx);
        let (mut p, _) = gen_light_bytes(&mut rng, "memlimit", &|s| s.mem_direct.is_some() && !s.heavy, 25);
        if tier == Tier::Thorough {
            p.set("fix_full_sweep_max", 4096);
        }
        p.sources.push(gen_base_source(&mut rng));
        p
    }
    fn run(&self, plan: &Plan, st: &mut Stats) -> Verdict {
        let tier_full = if plan.has("fix_full_sweep_max") { plan.param("fix_full_sweep_max") as usize } else { 600 };
        let s = catalogue().get(&plan.subject);
        let mem_direct = s.mem_direct.expect("harness: memlimit subject without mem tracking");
        let bytes = plan_bytes(plan);
        let src = plan.source0();
        let slice = SourceSpec::slice();
        // step 1: U and R
        let mut u_src = slice.clone();
        u_src.layers = vec![Layer::Mem(u64::MAX)];
        let r0 = (s.decode)(&bytes, &u_src, Mode::Decode);
        let u = r0.layers.used_mem.first().map(|x| x.1).unwrap_or(0);
        let r = (s.decode)(&bytes, &slice, Mode::Decode);
        st.note(salt(&[s.name, "unlimited", if r.res.is_ok() { "ok" } else { "err" }]), &r0.trace, bytes.len() > 1);
        match (&r.res, &r0.res) {
            (Ok(a), Ok(b)) if a == b && r.taken == r0.taken => {},
            (Err(_), Err(_)) => {},
            _ => return viol("c12.tracker_not_transparent", format!("{}: bytes {}: decoding under MemTrackingInput(usize::MAX) differs from plain decoding", s.name, hex_short(&bytes))),
        }
        // U identical across sources
        let mut u_src2 = src.clone();
        u_src2.layers = vec![Layer::Mem(u64::MAX)];
        let r1 = (s.decode)(&bytes, &u_src2, Mode::Decode);
        let u1 = r1.layers.used_mem.first().map(|x| x.1).unwrap_or(0);
        st.note(salt(&[s.name, &src.describe(), "unlimited2"]), &r1.trace, bytes.len() > 1);
        if r.res.is_ok() && r1.res.is_ok() && u1 != u {
            return viol("c12.usage_depends_on_source", format!("{}: bytes {}: tracked usage {} from the slice but {} via {}", s.name, hex_short(&bytes), u, u1, src.describe()));
        }
        if let Ok(v) = &r.res {
            if no_heap(&s.schema, 0) && u != 0 {
                return viol("c12.usage_nonzero_without_heap", format!("{}: value {} holds no heap data but tracked usage is {}", s.name, short(v), u));
            }
            if u < r.payload {
                return viol("c12.usage_below_payload", format!("{}: value {} holds {} bytes of decoded data on the heap but tracked usage is only {}", s.name, short(v), r.payload, u));
            }
            if u > 0 {
                st.probe("values_with_tracked_usage");
            }
            if u > 16384 {
                st.probe("usage_above_one_chunk");
            }
            // sanity of the harness payload computation against the allocator (calibration)
            let _ = c09::AMP;
        }
        // step 2
        let limits: Vec<usize> = if u <= tier_full {
            *st.exhaustive_parts.entry("limits_0_to_U_plus_1".into()).or_insert(0) += u as u64 + 2;
            (0..=u + 1).collect()
        } else {
            let mut l = vec![0, 1, u / 2, u - 1, u, u + 1, u.saturating_mul(2), usize::MAX];
            l.sort();
            l.dedup();
            l
        };
        for l in limits {
            let d = mem_direct(&bytes, l);
            let binding = u > 0 && l <= u + 1;
            let mut dtr = crate::seams::Trace::new();
            dtr.events = 2;
            st.note(salt(&[s.name, "direct", &bucket_l(l, u), if d.res.is_ok() { "ok" } else { "err" }]), &dtr, binding);
            judge(s.name, &bytes, "decode_with_mem_limit", l, u, &r.res, r.taken, &d.res, d.taken)?;
            // through layers over the drawn source: alone / under depth(max) / above counted
            // layer lists are innermost-first: the last layer is the one the decoder talks to
            let variant = l % 5;
            let mut ls = src.clone();
            ls.layers = match variant {
                0 => vec![Layer::Mem(l as u64)],
                1 => vec![Layer::Depth(u32::MAX), Layer::Mem(l as u64)],
                // = T::decode_with_depth_limit(max, &mut MemTrackingInput::new(input, l))
                2 => vec![Layer::Mem(l as u64), Layer::Depth(u32::MAX)],
                3 => vec![Layer::Counted, Layer::Mem(l as u64)],
                _ => vec![Layer::Mem(l as u64), Layer::Counted],
            };
            let o = (s.decode)(&bytes, &ls, Mode::Decode);
            st.note(salt(&[s.name, &ls.describe().replace(&l.to_string(), "L"), &bucket_l(l, u), if o.res.is_ok() { "ok" } else { "err" }]), &o.trace, binding);
            judge(s.name, &bytes, &format!("MemTrackingInput via {}", ls.describe()), l, u, &r.res, r.taken, &o.res, o.taken)?;
        }
        st.sample(|| json!({"subject": s.name, "bytes": hex_short(&bytes), "source": src.describe(), "U": u, "payload_lower_bound": r.payload, "unlimited_ok": r.res.is_ok()}));
        Ok(())
    }
}

fn bucket_l(l: usize, u: usize) -> String {
    if l > u {
        "above".into()
    } else if l == u {
        "at".into()
    } else if l == 0 {
        "zero".into()
    } else {
        "below".into()
    }
}

fn judge(name: &str, bytes: &[u8], what: &str, l: usize, u: usize, r: &Result<V, String>, rtaken: usize, got: &Result<V, String>, gtaken: usize) -> Verdict {
    match (r, got) {
        (Ok(rv), Ok(v)) => {
            if rv != v || rtaken != gtaken {
                return viol("c12.not_transparent", format!("{name}: bytes {}: {what} with limit {l} gives {} but unlimited decoding gives {}", hex_short(bytes), short(v), short(rv)));
            }
            if u > 0 && l <= u {
                return viol("c12.limit_not_enforced", format!("{name}: bytes {}: tracked usage is {u} but {what} with limit {l} succeeds", hex_short(bytes)));
            }
            Ok(())
        },
        (Ok(_), Err(e)) => {
            if l > u {
                return viol("c12.fails_above_usage", format!("{name}: bytes {}: tracked usage is {u} but {what} with limit {l} fails: {e}", hex_short(bytes)));
            }
            Ok(())
        },
        (Err(_), Ok(v)) => viol("c12.limit_accepts_more", format!("{name}: bytes {}: unlimited decoding fails but {what} with limit {l} gives {}", hex_short(bytes), short(v))),
        (Err(_), Err(_)) => Ok(()),
    }
}

fn gen_base_source(rng: &mut Rng) -> SourceSpec {
    let mut s = gen_benign_source(rng, false);
    s.layers.clear();
    s
}
