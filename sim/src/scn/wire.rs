//! C02 — decode(encode(v)) == v, consuming exactly the encoding.
//! Fault-free and benign-fault baseline of the wire simulation: a sender encodes K messages of
//! mixed subjects through drawn sinks onto one wire, followed by a suffix; a receiver decodes
//! them in order from one source stack.

use super::*;
use crate::engine::*;
use crate::seams::BaseInput;
use crate::subjects::Mode;
use serde_json::json;

pub struct Wire;

impl Scenario for Wire {
    fn name(&self) -> &'static str {
        "wire"
    }
    fn property(&self) -> &'static str {
        "C02"
    }
    fn level(&self) -> &'static str {
        "exploration"
    }
    fn rule(&self) -> &'static str {
        "seeded streams of 1..6 messages (subject, boundary-biased value incl. lengths around multiples of the 16 KiB chunk window, sink) + suffix, decoded in order from one drawn source stack with benign nondeterminism only (short reads, EINTR, unknown length, defaulted read_byte, non-binding wrapper layers, shared-buffer input); non-trivial = a benign fault fired, or more than one seam call, or (un-instrumented slice/Cursor bases) more than one encoded byte"
    }
    fn cases(&self, tier: Tier) -> u64 {
        tiered(tier, 1_500_000, 60_000_000)
    }

    fn gen(&self, seed: u64, idx: u64, _tier: Tier) -> Plan {
        let mut rng = Rng::for_case(seed, "wire", idx);
        let mut p = Plan::new("wire", "");
        let big_case = rng.chance(1, 25);
        let k = if big_case { rng.range(1, 2) } else { rng.range(1, 6) };
        for i in 0..k {
            let s = pick_subject(&mut rng, &|_| true);
            let v = gen_value(&mut rng, s, big_case && i == 0);
            let sink = gen_sink(&mut rng);
            p.msgs.push(Msg { subject: s.name.to_string(), value: v, sink });
        }
        p.subject = p.msgs[0].subject.clone();
        p.suffix = HexBytes(gen_suffix(&mut rng));
        p.sources.push(gen_benign_source(&mut rng, true));
        p
    }

    fn run(&self, plan: &Plan, st: &mut Stats) -> Verdict {
        let cat = catalogue();
        let mut wire: Vec<u8> = Vec::new();
        let mut lens = Vec::new();
        let mut sink_trace = crate::seams::Trace::new();
        for m in &plan.msgs {
            let s = cat.get(&m.subject);
            let out = (s.encode)(&m.value, &m.sink);
            lens.push(out.bytes.len());
            wire.extend_from_slice(&out.bytes);
            sink_trace.merge(&out.trace);
        }
        let total: usize = lens.iter().sum();
        wire.extend_from_slice(&plan.suffix.0);
        let src = plan.source0();
        let names: Vec<&str> = plan.msgs.iter().map(|m| m.subject.as_str()).collect();
        let per_message_source = src.base == Base::FromBytes || (src.base == Base::Slice && src.layers.is_empty());
        let mut cum = 0usize;
        let mut trace = crate::seams::Trace::new();
        if per_message_source {
            for (i, m) in plan.msgs.iter().enumerate() {
                let s = cat.get(&m.subject);
                let out = (s.decode)(&wire[cum..], &src, Mode::Decode);
                trace.merge(&out.trace);
                check_msg(i, m, &out.res, plan)?;
                if out.taken != lens[i] {
                    return viol("c02.consumed_mismatch", format!("message {} ({}): produced {} bytes, decode took {} (source {})", i, m.subject, lens[i], out.taken, src.describe()));
                }
                cum += out.taken;
                if src.base == Base::FromBytes {
                    st.probe("from_bytes_decodes");
                }
            }
        } else {
            let mut base = BaseInput::new(&src, &wire);
            for (i, m) in plan.msgs.iter().enumerate() {
                let s = cat.get(&m.subject);
                let out = (s.decode_dyn)(base.as_dyn(), &src.layers, Mode::Decode);
                check_msg(i, m, &out.res, plan)?;
                cum += lens[i];
                if base.taken() != cum {
                    return viol(
                        "c02.consumed_mismatch",
                        format!("after message {} ({}): produced {} bytes so far, source delivered {} (source {})", i, m.subject, cum, base.taken(), src.describe()),
                    );
                }
                for (_, c) in &out.layers.counted {
                    if *c != lens[i] as u64 {
                        st.probe("counted_layer_disagrees");
                    }
                }
            }
            let rep = base.finish();
            if rep.trace.max_read as usize > 16384 {
                st.probe("bulk_read_larger_than_chunk");
            }
            trace.merge(&rep.trace);
        }
        if cum != total || wire.len() - cum != plan.suffix.0.len() {
            return viol("c02.suffix_touched", format!("consumed {} of {} payload bytes; suffix {} bytes", cum, total, plan.suffix.0.len()));
        }
        if total > 16384 {
            st.probe("payload_crosses_chunk_window");
        }
        trace.merge(&sink_trace);
        let sg = salt(&[&names.join(","), &src.describe(), "ok"]);
        st.note(sg, &trace, total > 1);
        st.sample(|| json!({"messages": plan.msgs.iter().map(|m| json!({"subject": m.subject, "value": short(&m.value), "sink": format!("{:?}", m.sink.kind)})).collect::<Vec<_>>(), "wire_len": wire.len(), "suffix_len": plan.suffix.0.len(), "source": src.describe(), "chunks": src.chunks, "eintr": src.eintr, "trace": trace.log_strings()}));
        Ok(())
    }
}

fn check_msg(i: usize, m: &Msg, res: &Result<V, String>, plan: &Plan) -> Verdict {
    match res {
        Err(e) => viol("c02.decode_failed", format!("message {} ({}): decode of own encoding failed: {} (source {})", i, m.subject, e, plan.source0().describe())),
        Ok(v) => {
            if *v != m.value {
                viol("c02.value_mismatch", format!("message {} ({}): sent {} got {}", i, m.subject, short(&m.value), short(v)))
            } else {
                Ok(())
            }
        },
    }
}
