//! C06 — encoding depends only on logical content (history simulation, no faults).
//! A container is driven through a seeded operation history mirrored on a naive model; after
//! every operation its encoding (all entry points) must equal the encoding of the same logical
//! content rebuilt from the model in the simplest way.

use super::*;
use crate::engine::*;
use crate::seams::ChunkSink;
use crate::types::EnumData;
use bitvec::prelude::*;
use parity_scale_codec::Encode;
use serde_json::json;
use std::borrow::Cow;
use std::collections::{BTreeMap, BTreeSet, LinkedList, VecDeque};
use std::rc::Rc;
use std::sync::Arc;

pub struct History;

trait HElem: Encode + Clone + PartialEq + std::fmt::Debug + 'static {
    fn make(x: u64) -> Self;
}
impl HElem for u8 {
    fn make(x: u64) -> Self {
        x as u8
    }
}
impl HElem for u32 {
    fn make(x: u64) -> Self {
        (x as u32).wrapping_mul(0x9E3779B1)
    }
}
impl HElem for u128 {
    fn make(x: u64) -> Self {
        (x as u128).wrapping_mul(0x9E3779B97F4A7C15F39CC0605CEDC835)
    }
}
impl HElem for i16 {
    fn make(x: u64) -> Self {
        (x as i16).wrapping_mul(31)
    }
}
impl HElem for f64 {
    fn make(x: u64) -> Self {
        x as f64 * 1.5 - 7.0
    }
}
impl HElem for String {
    fn make(x: u64) -> Self {
        // now and then a string of more than 2 KiB
        let n = if x % 17 == 3 { 2100 + (x % 900) as usize } else { (x % 6) as usize };
        "xé中😀".chars().cycle().skip((x % 4) as usize).take(n).collect()
    }
}
impl HElem for Vec<u8> {
    fn make(x: u64) -> Self {
        let n = if x % 13 == 5 { 2048 + (x % 3000) as usize } else { (x % 9) as usize };
        (0..n).map(|i| (i as u64 ^ x) as u8).collect()
    }
}
impl HElem for crate::types::Unit1 {
    fn make(_: u64) -> Self {
        crate::types::Unit1::Only
    }
}
impl HElem for crate::types::TrZ {
    fn make(x: u64) -> Self {
        crate::types::TrZ(x as u32, crate::types::Unit1::Only)
    }
}
impl HElem for EnumData {
    fn make(i: u64) -> Self {
        match i % 4 {
            0 => EnumData::A,
            1 => EnumData::B(i as u8),
            2 => EnumData::C { x: i as u16, y: vec![2; (i % 3) as usize] },
            _ => EnumData::D(Some(i as u32), i % 2 == 0),
        }
    }
}

/// All four entry points of `x` must agree with `want`.
fn check_enc<T: Encode + ?Sized>(what: &str, x: &T, want: &[u8], step: usize, opname: &str) -> Verdict {
    let a = x.encode();
    if a != want {
        let at = a.iter().zip(want).position(|(p, q)| p != q).unwrap_or(a.len().min(want.len()));
        return viol("c06.encoding_depends_on_history", format!("{what}: after op #{step} ({opname}) encode() gives {} bytes, a fresh container with the same content {} bytes; first difference at offset {at}: got {} want {}", a.len(), want.len(), hex_short(&a[at.saturating_sub(2)..(at + 10).min(a.len())]), hex_short(&want[at.saturating_sub(2)..(at + 10).min(want.len())])));
    }
    let again = x.encode();
    if again != a {
        return viol("c06.not_deterministic", format!("{what}: encoding the same value twice gives different bytes after op #{step} ({opname})"));
    }
    let mut c = ChunkSink::new();
    x.encode_to(&mut c);
    if c.out != want {
        return viol("c06.encoding_depends_on_history", format!("{what}: after op #{step} ({opname}) encode_to(custom Output) differs from a fresh container"));
    }
    let u = x.using_encoded(|b| b.to_vec());
    if u != want {
        return viol("c06.encoding_depends_on_history", format!("{what}: after op #{step} ({opname}) using_encoded differs from a fresh container"));
    }
    if x.encoded_size() != want.len() {
        return viol("c06.encoding_depends_on_history", format!("{what}: after op #{step} ({opname}) encoded_size() = {} but a fresh container encodes to {} bytes", x.encoded_size(), want.len()));
    }
    Ok(())
}

fn holders<T: Encode + Clone>(what: &str, x: &T, want: &[u8], step: usize) -> Verdict {
    check_enc(&format!("&{what}"), &x, want, step, "borrow")?;
    check_enc(&format!("&&{what}"), &&x, want, step, "borrow twice")?;
    let mut y = x.clone();
    check_enc(&format!("&mut {what}"), &&mut y, want, step, "mutable borrow")?;
    let b = Box::new(x.clone());
    check_enc(&format!("Box<{what}>"), &b, want, step, "box")?;
    let r = Rc::new(x.clone());
    let _extra = (r.clone(), r.clone());
    check_enc(&format!("Rc<{what}>"), &r, want, step, "rc with extra strong refs")?;
    let a = Arc::new(x.clone());
    let _w = Arc::downgrade(&a);
    check_enc(&format!("Arc<{what}>"), &a, want, step, "arc with a weak ref")?;
    let cb: Cow<'_, T> = Cow::Borrowed(x);
    check_enc(&format!("Cow::Borrowed<{what}>"), &cb, want, step, "cow borrowed")?;
    let co: Cow<'_, T> = Cow::Owned(x.clone());
    check_enc(&format!("Cow::Owned<{what}>"), &co, want, step, "cow owned")?;
    Ok(())
}

/// Sequences whose *elements* are holders (Box, &, Rc, Arc, Cow) encode like the sequence of
/// the plain elements (the bulk fast path must not look through the holder).
fn seq_of_holders<T: HElem>(what: &str, model: &[T], want: &[u8], step: usize) -> Verdict {
    let boxed: Vec<Box<T>> = model.iter().cloned().map(Box::new).collect();
    check_enc(&format!("Vec<Box<{what}>>"), &boxed, want, step, "elements boxed")?;
    let refs: Vec<&T> = model.iter().collect();
    check_enc(&format!("Vec<&{what}>"), &refs, want, step, "elements borrowed")?;
    let rcs: VecDeque<Rc<T>> = model.iter().cloned().map(Rc::new).collect();
    check_enc(&format!("VecDeque<Rc<{what}>>"), &rcs, want, step, "elements in Rc")?;
    let arcs: Vec<Arc<T>> = model.iter().cloned().map(Arc::new).collect();
    check_enc(&format!("[Arc<{what}>]"), &arcs[..], want, step, "slice of Arc")?;
    let cows: Vec<Cow<'_, T>> = model.iter().map(Cow::Borrowed).collect();
    check_enc(&format!("Vec<Cow<{what}>>"), &cows, want, step, "elements in Cow")?;
    if model.len() >= 3 {
        // arrays have no length prefix: compare with the array of plain elements
        let plain: [T; 3] = [model[0].clone(), model[1].clone(), model[2].clone()];
        let w = plain.encode();
        let arr: [Box<T>; 3] = [Box::new(model[0].clone()), Box::new(model[1].clone()), Box::new(model[2].clone())];
        check_enc(&format!("[Box<{what}>; 3]"), &arr, &w, step, "array of boxes")?;
        let arr2: [&T; 3] = [&model[0], &model[1], &model[2]];
        check_enc(&format!("[&{what}; 3]"), &arr2, &w, step, "array of references")?;
    }
    Ok(())
}

fn deque_history<T: HElem>(plan: &Plan, st: &mut Stats, tname: &str) -> Verdict {
    let cap0 = plan.param("fix_cap") as usize;
    let mut dq: VecDeque<T> = if cap0 > 0 { VecDeque::with_capacity(cap0) } else { VecDeque::new() };
    let mut model: Vec<T> = Vec::new();
    let what = format!("VecDeque<{tname}>");
    let mut wrapped_seen = false;
    for (i, op) in plan.ops.iter().enumerate() {
        let len = model.len();
        match op.op.as_str() {
            "push_back" => {
                dq.push_back(T::make(op.a));
                model.push(T::make(op.a));
            },
            "push_front" => {
                dq.push_front(T::make(op.a));
                model.insert(0, T::make(op.a));
            },
            "pop_back" => {
                dq.pop_back();
                model.pop();
            },
            "pop_front" => {
                dq.pop_front();
                if !model.is_empty() {
                    model.remove(0);
                }
            },
            "insert" => {
                let at = if len == 0 { 0 } else { op.b as usize % (len + 1) };
                dq.insert(at, T::make(op.a));
                model.insert(at, T::make(op.a));
            },
            "remove" => {
                if len > 0 {
                    let at = op.b as usize % len;
                    dq.remove(at);
                    model.remove(at);
                }
            },
            "rotate_left" => {
                if len > 0 {
                    let k = op.a as usize % (len + 1);
                    dq.rotate_left(k);
                    model.rotate_left(k);
                }
            },
            "rotate_right" => {
                if len > 0 {
                    let k = op.a as usize % (len + 1);
                    dq.rotate_right(k);
                    model.rotate_right(k);
                }
            },
            "make_contiguous" => {
                dq.make_contiguous();
            },
            "reserve" => dq.reserve(op.a as usize % 200),
            "shrink_to_fit" => dq.shrink_to_fit(),
            "truncate" => {
                let k = op.a as usize % (len + 1);
                dq.truncate(k);
                model.truncate(k);
            },
            "drain" => {
                if len > 0 {
                    let a = op.a as usize % len;
                    let b = a + (op.b as usize % (len - a + 1));
                    dq.drain(a..b);
                    model.drain(a..b);
                }
            },
            "extend" => {
                let k = op.a % 40;
                dq.extend((0..k).map(|j| T::make(op.b + j)));
                model.extend((0..k).map(|j| T::make(op.b + j)));
            },
            "clear" => {
                dq.clear();
                model.clear();
            },
            "extend_big" => {
                // more than one 16 KiB window of elements in one ring half
                let k = 4200 + op.a % 5000;
                dq.extend((0..k).map(|j| T::make((op.b + j) % 11)));
                model.extend((0..k).map(|j| T::make((op.b + j) % 11)));
            },
            "cycle" => {
                // push_back / pop_front cycling moves the head through the ring buffer
                let k = op.a % 64;
                for j in 0..k {
                    dq.push_back(T::make(op.b + j));
                    model.push(T::make(op.b + j));
                    dq.pop_front();
                    model.remove(0);
                }
            },
            other => panic!("harness: unknown deque op {other}"),
        }
        let fresh: Vec<T> = model.clone();
        let want = fresh.encode();
        let (_, back) = dq.as_slices();
        if !back.is_empty() {
            wrapped_seen = true;
            st.probe("deque_wrapped_states_checked");
            if back.len() <= 8 {
                st.probe("deque_short_wrapped_run");
            }
        }
        check_enc(&what, &dq, &want, i, &op.op)?;
        if i + 1 == plan.ops.len() {
            holders(&what, &dq, &want, i)?;
            // a fresh deque built from the model encodes the same
            let fresh_dq: VecDeque<T> = model.iter().cloned().collect();
            check_enc(&format!("fresh {what}"), &fresh_dq, &want, i, "rebuild")?;
            seq_of_holders::<T>(tname, &model, &want, i)?;
            st.probe("sequences_of_holders_checked");
        }
    }
    let mut t = crate::seams::Trace::new();
    t.events = plan.ops.len() as u64;
    st.note(salt(&[&what, &plan.ops.iter().map(|o| &o.op[..2]).collect::<String>(), if wrapped_seen { "wrapped" } else { "flat" }]), &t, true);
    Ok(())
}

fn vec_history<T: HElem>(plan: &Plan, st: &mut Stats, tname: &str) -> Verdict {
    let cap0 = plan.param("fix_cap") as usize;
    let mut v: Vec<T> = Vec::with_capacity(cap0);
    let mut model: Vec<T> = Vec::new();
    let what = format!("Vec<{tname}>");
    for (i, op) in plan.ops.iter().enumerate() {
        let len = model.len();
        match op.op.as_str() {
            "push_back" | "push_front" | "cycle" => {
                v.push(T::make(op.a));
                model.push(T::make(op.a));
            },
            "pop_back" | "pop_front" => {
                v.pop();
                model.pop();
            },
            "insert" => {
                let at = op.b as usize % (len + 1);
                v.insert(at, T::make(op.a));
                model.insert(at, T::make(op.a));
            },
            "remove" => {
                if len > 0 {
                    v.remove(op.b as usize % len);
                    model.remove(op.b as usize % len);
                }
            },
            "reserve" => v.reserve(op.a as usize % 300),
            "shrink_to_fit" | "make_contiguous" => v.shrink_to_fit(),
            "truncate" => {
                let k = op.a as usize % (len + 1);
                v.truncate(k);
                model.truncate(k);
            },
            "extend" => {
                let k = op.a % 40;
                v.extend((0..k).map(|j| T::make(op.b + j)));
                model.extend((0..k).map(|j| T::make(op.b + j)));
            },
            "clear" => {
                v.clear();
                model.clear();
            },
            _ => {},
        }
        // fresh: exact capacity
        let mut fresh: Vec<T> = Vec::with_capacity(model.len());
        fresh.extend(model.iter().cloned());
        let want = fresh.encode();
        check_enc(&what, &v, &want, i, &op.op)?;
        check_enc(&format!("[{tname}]"), &v[..], &want, i, &op.op)?;
        if v.capacity() > v.len() {
            st.probe("vec_spare_capacity_states_checked");
        }
        if i + 1 == plan.ops.len() {
            holders(&what, &v, &want, i)?;
            seq_of_holders::<T>(tname, &model, &want, i)?;
        }
    }
    let mut t = crate::seams::Trace::new();
    t.events = plan.ops.len() as u64;
    st.note(salt(&[&what, &plan.ops.iter().map(|o| &o.op[..2]).collect::<String>()]), &t, true);
    Ok(())
}

fn string_history(plan: &Plan, st: &mut Stats) -> Verdict {
    let mut s = String::with_capacity(plan.param("fix_cap") as usize);
    let mut model = String::new();
    for (i, op) in plan.ops.iter().enumerate() {
        match op.op.as_str() {
            "push_back" | "push_front" | "insert" | "cycle" | "extend" => {
                let piece = <String as HElem>::make(op.a);
                s.push_str(&piece);
                model.push_str(&piece);
            },
            "pop_back" | "pop_front" | "remove" => {
                s.pop();
                model.pop();
            },
            "reserve" => s.reserve(op.a as usize % 300),
            "shrink_to_fit" | "make_contiguous" => s.shrink_to_fit(),
            "clear" => {
                s.clear();
                model.clear();
            },
            "truncate" => {
                let mut k = op.a as usize % (model.len() + 1);
                while !model.is_char_boundary(k) {
                    k -= 1;
                }
                s.truncate(k);
                model.truncate(k);
            },
            _ => {},
        }
        let fresh: String = model.as_str().to_owned();
        let want = fresh.encode();
        check_enc("String", &s, &want, i, &op.op)?;
        check_enc("str", s.as_str(), &want, i, &op.op)?;
        let cow: Cow<'_, str> = Cow::Borrowed(s.as_str());
        check_enc("Cow<str>", &cow, &want, i, &op.op)?;
        // strings encode like their bytes
        let bytes_want = model.as_bytes().to_vec().encode();
        if bytes_want != want {
            return viol("c06.encoding_depends_on_history", "String does not encode like the vector of its UTF-8 bytes".into());
        }
    }
    let mut t = crate::seams::Trace::new();
    t.events = plan.ops.len() as u64;
    st.note(salt(&["String", &plan.ops.iter().map(|o| &o.op[..2]).collect::<String>()]), &t, true);
    Ok(())
}

fn map_history(plan: &Plan, st: &mut Stats) -> Verdict {
    let mut m: BTreeMap<u32, String> = BTreeMap::new();
    let mut set: BTreeSet<u16> = BTreeSet::new();
    let mut model: Vec<(u32, String)> = Vec::new();
    let mut smodel: Vec<u16> = Vec::new();
    for (i, op) in plan.ops.iter().enumerate() {
        let k = (op.a % 97) as u32;
        match op.op.as_str() {
            "push_back" | "push_front" | "insert" | "cycle" | "extend" => {
                let val = <String as HElem>::make(op.b);
                m.insert(k, val.clone());
                model.retain(|(x, _)| *x != k);
                model.push((k, val));
                set.insert(k as u16);
                if !smodel.contains(&(k as u16)) {
                    smodel.push(k as u16);
                }
            },
            "pop_back" | "pop_front" | "remove" => {
                m.remove(&k);
                model.retain(|(x, _)| *x != k);
                set.remove(&(k as u16));
                smodel.retain(|x| *x != k as u16);
            },
            "truncate" | "drain" => {
                // split_off + append back in the other order
                let mut hi = m.split_off(&k);
                let mut lo = std::mem::take(&mut m);
                hi.append(&mut lo);
                m = hi;
                let mut shi = set.split_off(&(k as u16));
                let mut slo = std::mem::take(&mut set);
                shi.append(&mut slo);
                set = shi;
            },
            "rotate_left" | "rotate_right" => {
                m.retain(|x, _| x % 3 != (k % 3));
                model.retain(|(x, _)| x % 3 != (k % 3));
                set.retain(|x| (*x as u32) % 3 != (k % 3));
                smodel.retain(|x| (*x as u32) % 3 != (k % 3));
            },
            "clear" => {
                m.clear();
                model.clear();
                set.clear();
                smodel.clear();
            },
            _ => {},
        }
        let mut sorted = model.clone();
        sorted.sort();
        let fresh: BTreeMap<u32, String> = sorted.iter().cloned().collect();
        let want = fresh.encode();
        check_enc("BTreeMap<u32, String>", &m, &want, i, &op.op)?;
        // a map encodes like the slice of its sorted pairs
        let as_pairs: Vec<(u32, String)> = sorted.clone();
        if as_pairs.encode() != want {
            return viol("c06.encoding_depends_on_history", "BTreeMap does not encode like the sorted vector of its pairs".into());
        }
        let mut ssorted = smodel.clone();
        ssorted.sort();
        let sfresh: BTreeSet<u16> = ssorted.iter().cloned().collect();
        let swant = sfresh.encode();
        check_enc("BTreeSet<u16>", &set, &swant, i, &op.op)?;
        if ssorted.encode() != swant {
            return viol("c06.encoding_depends_on_history", "BTreeSet does not encode like the sorted vector of its elements".into());
        }
        if i + 1 == plan.ops.len() {
            holders("BTreeMap<u32, String>", &m, &want, i)?;
        }
    }
    let mut t = crate::seams::Trace::new();
    t.events = plan.ops.len() as u64;
    st.note(salt(&["BTreeMap", &plan.ops.iter().map(|o| &o.op[..2]).collect::<String>()]), &t, true);
    Ok(())
}

fn list_history(plan: &Plan, st: &mut Stats) -> Verdict {
    let mut l: LinkedList<u16> = LinkedList::new();
    let mut model: Vec<u16> = Vec::new();
    for (i, op) in plan.ops.iter().enumerate() {
        let len = model.len();
        match op.op.as_str() {
            "push_back" | "insert" | "extend" | "cycle" => {
                l.push_back(op.a as u16);
                model.push(op.a as u16);
            },
            "push_front" => {
                l.push_front(op.a as u16);
                model.insert(0, op.a as u16);
            },
            "pop_back" | "remove" => {
                l.pop_back();
                model.pop();
            },
            "pop_front" => {
                l.pop_front();
                if len > 0 {
                    model.remove(0);
                }
            },
            "truncate" | "drain" | "rotate_left" | "rotate_right" => {
                // split_off and append back in swapped order
                let at = op.a as usize % (len + 1);
                let mut tail = l.split_off(at);
                tail.append(&mut l);
                l = tail;
                model.rotate_left(at);
            },
            "clear" => {
                l.clear();
                model.clear();
            },
            _ => {},
        }
        let fresh: LinkedList<u16> = model.iter().cloned().collect();
        let want = fresh.encode();
        check_enc("LinkedList<u16>", &l, &want, i, &op.op)?;
        if model.encode() != want {
            return viol("c06.encoding_depends_on_history", "LinkedList does not encode like the vector of its elements".into());
        }
    }
    let mut t = crate::seams::Trace::new();
    t.events = plan.ops.len() as u64;
    st.note(salt(&["LinkedList", &plan.ops.iter().map(|o| &o.op[..2]).collect::<String>()]), &t, true);
    Ok(())
}

fn bits_history<T: BitStore<Unalias = T> + Encode, O: BitOrder>(plan: &Plan, st: &mut Stats, name: &str) -> Verdict
where
    BitVec<T, O>: Encode,
    BitBox<T, O>: Encode,
    BitSlice<T, O>: Encode,
{
    let mut bv: BitVec<T, O> = BitVec::new();
    let mut model: Vec<bool> = Vec::new();
    let fresh_of = |bits: &[bool]| -> Vec<u8> {
        let mut f: BitVec<T, O> = BitVec::new();
        for b in bits {
            f.push(*b);
        }
        f.encode()
    };
    for (i, op) in plan.ops.iter().enumerate() {
        let len = model.len();
        match op.op.as_str() {
            "push_back" | "push_front" | "insert" | "cycle" => {
                let b = op.a % 3 != 0;
                bv.push(b);
                model.push(b);
            },
            "extend" => {
                for j in 0..(op.a % 70) {
                    let b = (op.b >> (j % 60)) & 1 == 1;
                    bv.push(b);
                    model.push(b);
                }
            },
            "pop_back" | "pop_front" | "remove" => {
                bv.pop();
                model.pop();
            },
            "truncate" => {
                let k = op.a as usize % (len + 1);
                bv.truncate(k);
                model.truncate(k);
            },
            "drain" | "rotate_left" => {
                // split_off: the tail becomes an owned bit vector with a non-zero head offset
                let at = op.a as usize % (len + 1);
                let tail = bv.split_off(at);
                let want_tail = fresh_of(&model[at..]);
                check_enc(&format!("{name} split_off tail"), &tail, &want_tail, i, "split_off")?;
                st.probe("bits_owned_with_head_offset_checked");
                let tb: BitBox<T, O> = tail.clone().into_boxed_bitslice();
                check_enc(&format!("{name} split_off tail as BitBox"), &tb, &want_tail, i, "split_off+box")?;
                model.truncate(at);
            },
            "clear" => {
                bv.clear();
                model.clear();
            },
            _ => {},
        }
        let want = fresh_of(&model);
        check_enc(name, &bv, &want, i, &op.op)?;
    }
    // sub-slicing at every bit offset of the backing store
    let len = model.len();
    let max_off = len.min(70);
    for o in 0..=max_off {
        for l in [0usize, 1, 2, 3, 4, 5, 6, 7, 8, 9, 12, 15, 16, 17, 24, 31, 32, 33, 48, 63, 64, 65, len - o] {
            if o + l > len {
                continue;
            }
            let want = fresh_of(&model[o..o + l]);
            let sl: &BitSlice<T, O> = &bv[o..o + l];
            check_enc(&format!("{name}[{o}..{}] (BitSlice)", o + l), sl, &want, plan.ops.len(), "sub-slice")?;
            let owned: BitVec<T, O> = sl.to_bitvec();
            check_enc(&format!("{name}[{o}..{}].to_bitvec()", o + l), &owned, &want, plan.ops.len(), "sub-slice to_bitvec")?;
            let owned2: BitVec<T, O> = BitVec::from_bitslice(sl);
            check_enc(&format!("BitVec::from_bitslice({name}[{o}..{}])", o + l), &owned2, &want, plan.ops.len(), "from_bitslice")?;
            let bx: BitBox<T, O> = BitBox::from_bitslice(sl);
            check_enc(&format!("BitBox::from_bitslice({name}[{o}..{}])", o + l), &bx, &want, plan.ops.len(), "bitbox from_bitslice")?;
            st.probe("bit_subslices_checked");
        }
    }
    // the vector itself, converted by move (no clone in between): dead bits beyond the length
    // left behind by pop / truncate must not leak into the encoding
    {
        let want = fresh_of(&model);
        let mut shrunk: BitVec<T, O> = BitVec::repeat(true, len + 13);
        shrunk.truncate(len);
        for (i, b) in model.iter().enumerate() {
            shrunk.set(i, *b);
        }
        check_enc(&format!("{name} built by repeat+truncate"), &shrunk, &want, plan.ops.len(), "repeat+truncate")?;
        let sb: BitBox<T, O> = shrunk.into_boxed_bitslice();
        check_enc(&format!("{name} repeat+truncate into_boxed_bitslice"), &sb, &want, plan.ops.len(), "into_boxed_bitslice")?;
        let moved: BitBox<T, O> = bv.into_boxed_bitslice();
        check_enc(&format!("{name} into_boxed_bitslice (by move)"), &moved, &want, plan.ops.len(), "into_boxed_bitslice")?;
        let back: BitVec<T, O> = moved.into_bitvec();
        check_enc(&format!("{name} BitBox::into_bitvec"), &back, &want, plan.ops.len(), "into_bitvec")?;
        st.probe("bitbox_by_move_checked");
    }
    let mut t = crate::seams::Trace::new();
    t.events = plan.ops.len() as u64 + max_off as u64;
    st.note(salt(&[name, &plan.ops.iter().map(|o| &o.op[..2]).collect::<String>(), &(len % 64).to_string()]), &t, true);
    Ok(())
}

/// Second C06 scenario: a value obtained by *decoding* (possibly from bytes with set padding
/// bits, duplicate or unsorted map entries, ...) must encode like the same logical value built
/// from scratch.
pub struct Reencode;

impl Scenario for Reencode {
    fn name(&self) -> &'static str {
        "reencode"
    }
    fn property(&self) -> &'static str {
        "C06"
    }
    fn level(&self) -> &'static str {
        "exploration"
    }
    fn rule(&self) -> &'static str {
        "additionally: one subject and one byte string per case (valid, valid+suffix, damaged incl. set padding bits of bit sequences, duplicate / unsorted map and set entries); when the real decoder accepts it, the encoding of the decoded value must equal the encoding of the same logical value rebuilt from its model (decoding is one more construction history)"
    }
    fn cases(&self, tier: Tier) -> u64 {
        tiered(tier, 400_000, 20_000_000)
    }
    fn gen(&self, seed: u64, idx: u64, _tier: Tier) -> Plan {
        let mut rng = Rng::for_case(seed, "reencode", idx);
        // BinaryHeap is excluded: its iteration order legitimately depends on history and the
        // property does not list it.
        let (p, _) = super::stacks::gen_light_bytes(&mut rng, "reencode", &|s| !s.heavy && !s.name.contains("BinaryHeap"), 60);
        p
    }
    fn run(&self, plan: &Plan, st: &mut Stats) -> Verdict {
        let s = catalogue().get(&plan.subject);
        let bytes = super::bytesgen::plan_bytes(plan);
        let mut t = crate::seams::Trace::new();
        match (s.reencode)(&bytes) {
            None => {
                t.events = 1;
                st.note(salt(&[s.name, "rejected"]), &t, bytes.len() > 1);
            },
            Some((a, b)) => {
                t.events = 2;
                st.note(salt(&[s.name, "accepted", &plan.param("fix_family").to_string()]), &t, bytes.len() > 1);
                st.probe("accepted_and_reencoded");
                if a != b {
                    let at = a.iter().zip(&b).position(|(x, y)| x != y).unwrap_or(a.len().min(b.len()));
                    return viol("c06.encoding_depends_on_history", format!("{}: the value decoded from {} encodes to {} but the same logical value built from scratch encodes to {} (first difference at offset {})", s.name, hex_short(&bytes), hex_short(&a), hex_short(&b), at));
                }
            },
        }
        st.sample(|| json!({"subject": s.name, "bytes": hex_short(&bytes), "mutations": format!("{:?}", plan.muts)}));
        Ok(())
    }
}

const KINDS: [&str; 16] = [
    "VecDeque<u8>", "VecDeque<u32>", "VecDeque<u128>", "VecDeque<String>", "VecDeque<EnumData>", "VecDeque<i16>", "VecDeque<f64>", "Vec<u32>", "Vec<String>", "String", "BTreeMap", "LinkedList", "BitVec<u8,Lsb0>", "BitVec<u8,Msb0>",
    "BitVec<u16,Lsb0>", "BitVec<u32,Msb0>",
];
const KINDS2: [&str; 6] = ["BitVec<u64,Lsb0>", "VecDeque<Unit1>", "VecDeque<TrZ>", "Vec<Unit1>", "VecDeque<Vec<u8>>", "Vec<Vec<u8>>"];
const OPS: [&str; 16] = ["push_back", "push_front", "pop_back", "pop_front", "insert", "remove", "rotate_left", "rotate_right", "make_contiguous", "reserve", "shrink_to_fit", "truncate", "drain", "extend", "clear", "cycle"];

impl Scenario for History {
    fn name(&self) -> &'static str {
        "history"
    }
    fn property(&self) -> &'static str {
        "C06"
    }
    fn level(&self) -> &'static str {
        "exploration"
    }
    fn rule(&self) -> &'static str {
        "history simulation without faults: per case one container kind (VecDeque of u8/u32/u128/i16/f64/String/derived enum, Vec, String, BTreeMap+BTreeSet, LinkedList, BitVec over u8/u16/u32/u64 x Lsb0/Msb0) and 1..60 seeded operations (push/pop both ends, insert, remove, rotate, make_contiguous, reserve, shrink_to_fit, truncate, drain, extend, clear, push_back/pop_front cycling, with_capacity starts; split_off/append/retain for maps, sets, lists and bit vectors) mirrored on a naive model; after EVERY operation encode(), encode_to(custom Output), using_encoded and encoded_size must equal those of the same logical content rebuilt in the simplest way, twice in a row; at the end the holders &T, &&T, &mut T, Box, Rc (extra strong refs), Arc (weak ref), Cow::Borrowed/Owned are compared, and for bit sequences every sub-slice offset 0..=70 x 23 lengths as BitSlice, to_bitvec(), from_bitslice and BitBox; non-trivial = every history; distinct = container kind x operation-name sequence x (wrapped / flat)"
    }
    fn cases(&self, tier: Tier) -> u64 {
        tiered(tier, 400_000, 20_000_000)
    }
    fn gen(&self, seed: u64, idx: u64, _tier: Tier) -> Plan {
        let mut rng = Rng::for_case(seed, "history", idx);
        let kind = if rng.chance(1, 5) { *rng.pick(&KINDS2) } else { *rng.pick(&KINDS) };
        let mut p = Plan::new("history", "");
        p.subject = kind.to_string();
        p.set("fix_cap", *rng.pick(&[0i64, 0, 1, 3, 8, 16, 17, 64]));
        let n = rng.range(1, 60);
        // bias: histories that grow first
        let grow = rng.range(0, 12);
        for i in 0..n {
            let op = if i < grow { *rng.pick(&["push_back", "push_front", "extend", "cycle"]) } else { *rng.pick(&OPS) };
            p.ops.push(Op { op: op.to_string(), a: rng.below(1000), b: rng.below(1 << 40), v: None });
        }
        if matches!(kind, "VecDeque<u8>" | "VecDeque<u32>" | "VecDeque<u128>" | "VecDeque<i16>" | "VecDeque<f64>") && rng.chance(1, 12) {
            let at = rng.usize_below(p.ops.len() + 1);
            p.ops.insert(at, Op { op: "extend_big".into(), a: rng.below(5000), b: rng.below(1 << 30), v: None });
        }
        p
    }
    fn run(&self, plan: &Plan, st: &mut Stats) -> Verdict {
        let r = match plan.subject.as_str() {
            "VecDeque<u8>" => deque_history::<u8>(plan, st, "u8"),
            "VecDeque<u32>" => deque_history::<u32>(plan, st, "u32"),
            "VecDeque<u128>" => deque_history::<u128>(plan, st, "u128"),
            "VecDeque<i16>" => deque_history::<i16>(plan, st, "i16"),
            "VecDeque<f64>" => deque_history::<f64>(plan, st, "f64"),
            "VecDeque<String>" => deque_history::<String>(plan, st, "String"),
            "VecDeque<EnumData>" => deque_history::<EnumData>(plan, st, "EnumData"),
            "VecDeque<Vec<u8>>" => deque_history::<Vec<u8>>(plan, st, "Vec<u8>"),
            "Vec<Vec<u8>>" => vec_history::<Vec<u8>>(plan, st, "Vec<u8>"),
            "VecDeque<Unit1>" => deque_history::<crate::types::Unit1>(plan, st, "Unit1"),
            "VecDeque<TrZ>" => deque_history::<crate::types::TrZ>(plan, st, "TrZ"),
            "Vec<Unit1>" => vec_history::<crate::types::Unit1>(plan, st, "Unit1"),
            "Vec<u32>" => vec_history::<u32>(plan, st, "u32"),
            "Vec<String>" => vec_history::<String>(plan, st, "String"),
            "String" => string_history(plan, st),
            "BTreeMap" => map_history(plan, st),
            "LinkedList" => list_history(plan, st),
            "BitVec<u8,Lsb0>" => bits_history::<u8, Lsb0>(plan, st, "BitVec<u8,Lsb0>"),
            "BitVec<u8,Msb0>" => bits_history::<u8, Msb0>(plan, st, "BitVec<u8,Msb0>"),
            "BitVec<u16,Lsb0>" => bits_history::<u16, Lsb0>(plan, st, "BitVec<u16,Lsb0>"),
            "BitVec<u32,Msb0>" => bits_history::<u32, Msb0>(plan, st, "BitVec<u32,Msb0>"),
            "BitVec<u64,Lsb0>" => bits_history::<u64, Lsb0>(plan, st, "BitVec<u64,Lsb0>"),
            other => panic!("harness: unknown history kind {other}"),
        };
        st.sample(|| json!({"container": plan.subject, "initial_capacity": plan.param("fix_cap"), "ops": plan.ops.iter().map(|o| format!("{}({},{})", o.op, o.a, o.b % 1000)).collect::<Vec<_>>()}));
        r
    }
}
