//! C18 — length peeking and skipping agree with full decoding.

use super::bytesgen::*;
use super::stacks::gen_light_bytes;
use super::*;
use crate::engine::*;
use crate::model::{Dec, Rej};
use crate::subjects::Mode;
use serde_json::json;

pub struct Skip;

fn model_len(v: &V) -> Option<u64> {
    match v {
        V::Seq(x) => Some(x.len() as u64),
        V::Blob(b) => Some(b.len() as u64),
        V::Rep(n, _) => Some(*n),
        V::Map(m) => Some(m.len() as u64),
        V::Tuple(t) => t.first().and_then(model_len),
        _ => None,
    }
}

impl Scenario for Skip {
    fn name(&self) -> &'static str {
        "skip"
    }
    fn property(&self) -> &'static str {
        "C18"
    }
    fn level(&self) -> &'static str {
        "exploration"
    }
    fn rule(&self) -> &'static str {
        "per case one subject, one byte string (valid, valid+suffix, damaged, truncated, random) and one benign source stack; T::skip and T::decode run on twin copies of the same source with the same seam schedule: same Ok/Err, same bytes taken on Ok; for collection subjects (and tuples led by one) DecodeLength::len(bytes) equals the value's length on honest encodings and is Err exactly when the count prefix is not a valid Compact<u32>; non-trivial = more than one seam call, a benign fault fired, or input longer than one byte"
    }
    fn cases(&self, tier: Tier) -> u64 {
        tiered(tier, 2_000_000, 80_000_000)
    }
    fn gen(&self, seed: u64, idx: u64, _tier: Tier) -> Plan {
        let mut rng = Rng::for_case(seed, "skip", idx);
        // bias towards subjects with DecodeLength in a third of the cases
        let want_len = rng.chance(1, 3);
        let (mut p, _) = gen_light_bytes(&mut rng, "skip", &|s| !want_len || s.decode_len.is_some(), 60);
        p.sources.push(gen_benign_source(&mut rng, true));
        p
    }
    fn run(&self, plan: &Plan, st: &mut Stats) -> Verdict {
        let s = catalogue().get(&plan.subject);
        let bytes = plan_bytes(plan);
        let src = plan.source0();
        let d = (s.decode)(&bytes, &src, Mode::Decode);
        let k = (s.decode)(&bytes, &src, Mode::Skip);
        let class = match (&d.res, &k.res) {
            (Ok(_), Ok(_)) => "ok",
            (Err(_), Err(_)) => "err",
            _ => "differ",
        };
        st.note(salt(&[s.name, &src.describe(), class]), &d.trace, bytes.len() > 1);
        st.note(salt(&[s.name, &src.describe(), class, "skip"]), &k.trace, bytes.len() > 1);
        match (&d.res, &k.res) {
            (Ok(v), Err(e)) => return viol("c18.skip_fails_decode_ok", format!("{}: bytes {} source {}: decode gives {} but skip fails: {}", s.name, hex_short(&bytes), src.describe(), short(v), e)),
            (Err(e), Ok(_)) => return viol("c18.skip_ok_decode_fails", format!("{}: bytes {} source {}: decode fails ({}) but skip succeeds", s.name, hex_short(&bytes), src.describe(), e)),
            (Ok(_), Ok(_)) => {
                if d.taken != k.taken {
                    return viol("c18.skip_advance_differs", format!("{}: bytes {} source {}: decode took {} bytes, skip took {}", s.name, hex_short(&bytes), src.describe(), d.taken, k.taken));
                }
                st.probe("both_ok");
            },
            _ => {
                st.probe("both_err");
            },
        }
        if let Some(len_fn) = s.decode_len {
            let got = len_fn(&bytes);
            let mut dec = Dec::new(&bytes);
            let prefix = dec.compact_u32();
            match (&prefix, &got) {
                (Err(Rej::Reject), Ok(n)) => return viol("c18.len_accepts_bad_prefix", format!("{}: bytes {}: count prefix is not a valid Compact<u32> but len() = {}", s.name, hex_short(&bytes), n)),
                (Ok(c), Err(e)) => return viol("c18.len_rejects_good_prefix", format!("{}: bytes {}: count prefix {} is valid but len() fails: {}", s.name, hex_short(&bytes), c, e)),
                (Ok(c), Ok(n)) => {
                    if *c as usize != *n {
                        return viol("c18.len_wrong", format!("{}: bytes {}: count prefix is {} but len() = {}", s.name, hex_short(&bytes), c, n));
                    }
                    st.probe("len_ok");
                },
                _ => {
                    st.probe("len_err");
                },
            }
            // honest encodings: len == the value's length
            if plan.muts.is_empty() {
                if let (Some(v), Ok(n)) = (&plan.value, &got) {
                    if let Some(ml) = model_len(v) {
                        if ml != *n as u64 {
                            return viol("c18.len_vs_value", format!("{}: value has {} elements but len(encoding) = {}", s.name, ml, n));
                        }
                        st.probe("len_vs_value_checked");
                    }
                }
            }
        }
        st.sample(|| json!({"subject": s.name, "bytes": hex_short(&bytes), "source": src.describe(), "decode": class, "decode_taken": d.taken, "skip_taken": k.taken, "trace": k.trace.log_strings()}));
        Ok(())
    }
}
