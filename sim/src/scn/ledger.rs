//! C10 — failed or panicking decodes release everything exactly once.
//! Seam S6: instrumented element types with a construction/drop ledger; S1/S4 error faults;
//! S5: allocation accounting (everything requested during the call must be released once the
//! result has been dropped).  Every fault position of every kind is enumerated per case.

use super::*;
use crate::alloc::{window_begin, window_end};
use crate::engine::*;
use crate::seams::{set_layers, take_layer_report, BaseInput, Cont, DecodeOf, DynAdapter, DynInput};
use parity_scale_codec::{Decode, Error, Input};
use serde_json::json;
use std::any::Any;
use std::cell::RefCell;
use std::collections::{BTreeMap, BTreeSet, BinaryHeap, LinkedList, VecDeque};
use std::marker::PhantomData;
use std::mem::ManuallyDrop;
use std::rc::Rc;
use std::sync::Arc;

// ---- ledger -------------------------------------------------------------------------------

#[derive(Clone, Copy, PartialEq, Eq, Debug)]
enum EF {
    None,
    ErrAt(u32),
    PanicAt(u32),
}

struct Ledger {
    next_id: u32,
    /// live[id] for ids handed out in this run
    live: Vec<bool>,
    n_live: usize,
    constructed: u32,
    dropped: u32,
    double_drops: u32,
    decode_calls: u32,
    fault: EF,
    fired: bool,
    /// zero-sized droppable tokens (they cannot carry an id)
    z_live: i64,
    z_constructed: u32,
    z_over_dropped: u32,
}

thread_local! {
    static LEDGER: RefCell<Ledger> = RefCell::new(Ledger { next_id: 1, live: vec![false; 8192], n_live: 0, constructed: 0, dropped: 0, double_drops: 0, decode_calls: 0, fault: EF::None, fired: false, z_live: 0, z_constructed: 0, z_over_dropped: 0 });
}

fn ledger_reset(fault: EF) {
    LEDGER.with(|l| {
        let mut l = l.borrow_mut();
        l.next_id = 1;
        for x in l.live.iter_mut() {
            *x = false;
        }
        l.n_live = 0;
        l.constructed = 0;
        l.dropped = 0;
        l.double_drops = 0;
        l.decode_calls = 0;
        l.fault = fault;
        l.fired = false;
        l.z_live = 0;
        l.z_constructed = 0;
        l.z_over_dropped = 0;
    });
}

/// Consults the element-fault plan for the next element decoder call.
fn next_elem_action() -> u8 {
    LEDGER.with(|l| {
        let mut l = l.borrow_mut();
        let idx = l.decode_calls;
        l.decode_calls += 1;
        match l.fault {
            EF::ErrAt(k) if k == idx => {
                l.fired = true;
                1
            },
            EF::PanicAt(k) if k == idx => {
                l.fired = true;
                2
            },
            _ => 0,
        }
    })
}

/// Zero-sized element with a Drop impl (token / permit style): one byte on the wire.
pub struct Zd;
impl Decode for Zd {
    fn decode<I: Input>(input: &mut I) -> Result<Self, Error> {
        input.read_byte()?;
        match next_elem_action() {
            1 => return Err("sim: malformed element".into()),
            2 => std::panic::panic_any(crate::InjectedPanic),
            _ => {},
        }
        LEDGER.with(|l| {
            let mut l = l.borrow_mut();
            l.z_live += 1;
            l.z_constructed += 1;
        });
        Ok(Zd)
    }
    fn encoded_fixed_size() -> Option<usize> {
        Some(1)
    }
}
impl Drop for Zd {
    fn drop(&mut self) {
        LEDGER.with(|l| {
            let mut l = l.borrow_mut();
            if l.z_live <= 0 {
                l.z_over_dropped += 1;
            } else {
                l.z_live -= 1;
            }
        });
    }
}

/// Instrumented element: 2 bytes on the wire, holds a heap block, registered in the ledger.
pub struct Tr {
    id: u32,
    payload: u16,
    heap: ManuallyDrop<Box<u16>>,
}

impl Decode for Tr {
    fn decode<I: Input>(input: &mut I) -> Result<Self, Error> {
        let mut b = [0u8; 2];
        input.read(&mut b)?;
        match next_elem_action() {
            1 => return Err("sim: malformed element".into()),
            2 => std::panic::panic_any(crate::InjectedPanic),
            _ => {},
        }
        let payload = u16::from_le_bytes(b);
        let heap = ManuallyDrop::new(Box::new(payload));
        let id = LEDGER.with(|l| {
            let mut l = l.borrow_mut();
            let id = l.next_id;
            l.next_id += 1;
            l.constructed += 1;
            assert!((id as usize) < l.live.len(), "harness: ledger capacity");
            l.live[id as usize] = true;
            l.n_live += 1;
            id
        });
        Ok(Tr { id, payload, heap })
    }
    // truthful: every Tr takes exactly 2 bytes on the wire
    fn encoded_fixed_size() -> Option<usize> {
        Some(2)
    }
}

impl Drop for Tr {
    fn drop(&mut self) {
        let legit = LEDGER.with(|l| {
            let mut l = l.borrow_mut();
            if l.live.get(self.id as usize).copied().unwrap_or(false) {
                l.live[self.id as usize] = false;
                l.n_live -= 1;
                l.dropped += 1;
                true
            } else {
                l.double_drops += 1;
                false
            }
        });
        if legit {
            // free the heap block only for a legitimate drop, so that a double drop is reported
            // by the ledger instead of crashing the allocator
            unsafe { ManuallyDrop::drop(&mut self.heap) };
        }
    }
}

impl PartialEq for Tr {
    fn eq(&self, o: &Self) -> bool {
        self.payload == o.payload && self.id == o.id
    }
}
impl Eq for Tr {}
impl PartialOrd for Tr {
    fn partial_cmp(&self, o: &Self) -> Option<std::cmp::Ordering> {
        Some(self.cmp(o))
    }
}
impl Ord for Tr {
    fn cmp(&self, o: &Self) -> std::cmp::Ordering {
        (self.payload, self.id).cmp(&(o.payload, o.id))
    }
}

/// Fallible zero-sized element: one byte on the wire, must be zero.
pub struct Zf;
impl Decode for Zf {
    fn decode<I: Input>(input: &mut I) -> Result<Self, Error> {
        if input.read_byte()? != 0 {
            return Err("sim: malformed zero-sized element".into());
        }
        Ok(Zf)
    }
}

#[derive(Decode)]
#[repr(transparent)]
pub struct T1(pub Tr);
#[derive(Decode)]
#[repr(transparent)]
pub struct T2(pub Tr, pub PhantomData<u8>);
#[derive(Decode)]
#[repr(transparent)]
pub struct T3(pub [Tr; 4]);
#[derive(Decode)]
#[repr(transparent)]
pub struct T4(pub Tr, pub Zf);
/// Non-transparent twin of T4 (must behave: the plain derive path).
#[derive(Decode)]
pub struct P4(pub Tr, pub Zf);
#[derive(Decode)]
#[repr(transparent)]
pub struct T5(pub Tr, pub PhantomData<u8>, pub Zf);
#[derive(Decode)]
#[repr(transparent)]
pub struct T6(pub Tr, pub Zf, pub Zf);
#[derive(Decode)]
#[repr(transparent)]
pub struct T7(pub PhantomData<u16>, pub [Tr; 2], pub Zf);
#[derive(Decode)]
pub struct LStruct {
    pub a: Tr,
    pub b: Vec<Tr>,
    pub c: [Tr; 3],
}
#[derive(Decode)]
pub enum LEnum {
    A(Tr),
    B { x: Tr, y: [Tr; 2] },
    C,
}

// ---- wire shapes ---------------------------------------------------------------------------

#[derive(Clone, Debug)]
enum LS {
    /// one Tr element
    E,
    /// one Zf element
    Z,
    /// one Zd token
    D,
    Arr(usize, Box<LS>),
    /// count prefix + N elements (N = the case's N)
    Seq(Box<LS>),
    /// count prefix + N pairs
    Map(Box<LS>, Box<LS>),
    OptSome(Box<LS>),
    ResOk(Box<LS>),
    ResErr(Box<LS>),
    Tuple(Vec<LS>),
    Variant(u8, Vec<LS>),
}

struct Built {
    bytes: Vec<u8>,
    n_tr: u32,
    n_zd: u32,
    zf_offsets: Vec<usize>,
    next_payload: u16,
}

fn build(ls: &LS, n: usize, b: &mut Built) {
    match ls {
        LS::E => {
            b.bytes.extend_from_slice(&b.next_payload.to_le_bytes());
            b.next_payload += 1;
            b.n_tr += 1;
        },
        LS::D => {
            b.bytes.push(7);
            b.n_zd += 1;
        },
        LS::Z => {
            b.zf_offsets.push(b.bytes.len());
            b.bytes.push(0);
        },
        LS::Arr(k, e) => {
            for _ in 0..*k {
                build(e, n, b);
            }
        },
        LS::Seq(e) => {
            crate::model::compact_bytes(n as u128, &mut b.bytes);
            for _ in 0..n {
                build(e, n, b);
            }
        },
        LS::Map(k, v) => {
            crate::model::compact_bytes(n as u128, &mut b.bytes);
            for _ in 0..n {
                build(k, n, b);
                build(v, n, b);
            }
        },
        LS::OptSome(e) => {
            b.bytes.push(1);
            build(e, n, b);
        },
        LS::ResOk(e) => {
            b.bytes.push(0);
            build(e, n, b);
        },
        LS::ResErr(e) => {
            b.bytes.push(1);
            build(e, n, b);
        },
        LS::Tuple(f) => {
            for x in f {
                build(x, n, b);
            }
        },
        LS::Variant(i, f) => {
            b.bytes.push(*i);
            for x in f {
                build(x, n, b);
            }
        },
    }
}

struct LCont {
    name: &'static str,
    shape: LS,
    decode: fn(&mut dyn DynInput, &[Layer]) -> Result<Box<dyn Any>, Error>,
    /// the N values this container is run with
    ns: &'static [usize],
}

/// The caller configures the wrapper stack (set_layers) before and collects the layer report
/// after its allocation window, so that harness bookkeeping is not accounted to the decode.
fn ldecode<T: Decode + 'static>(inp: &mut dyn DynInput, _layers: &[Layer]) -> Result<Box<dyn Any>, Error> {
    Cont::<DecodeOf<T>>::decode(&mut DynAdapter(inp)).map(|c| Box::new((c.0).0) as Box<dyn Any>)
}

const N_SEQ: &[usize] = &[0, 1, 2, 3, 8, 40];
/// crosses the 16 KiB chunk window of Vec<Tr> (size_of::<Tr>() == 16: 1024 elements per chunk)
const N_BIG: &[usize] = &[0, 1, 3, 40, 1100, 2100];
const N_ONE: &[usize] = &[1];
const N_SMALL: &[usize] = &[0, 1, 3, 8];

macro_rules! lc {
    ($v:ident; $($t:ty, $shape:expr, $ns:expr;)*) => {$(
        $v.push(LCont { name: stringify!($t), shape: $shape, decode: ldecode::<$t>, ns: $ns });
    )*}
}

fn bx(l: LS) -> Box<LS> {
    Box::new(l)
}

fn containers() -> Vec<LCont> {
    use LS::*;
    let tr = || LS::E;
    let t4 = || Tuple(vec![LS::E, LS::Z]);
    let t6 = || Tuple(vec![LS::E, LS::Z, LS::Z]);
    let t7 = || Tuple(vec![LS::E, LS::E, LS::Z]);
    let zd = || LS::D;
    let mut v: Vec<LCont> = Vec::new();
    lc! { v;
        [Tr; 0], Arr(0, bx(tr())), N_ONE;
        [Tr; 1], Arr(1, bx(tr())), N_ONE;
        [Tr; 2], Arr(2, bx(tr())), N_ONE;
        [Tr; 3], Arr(3, bx(tr())), N_ONE;
        [Tr; 8], Arr(8, bx(tr())), N_ONE;
        [Tr; 40], Arr(40, bx(tr())), N_ONE;
        Box<Tr>, tr(), N_ONE;
        Rc<Tr>, tr(), N_ONE;
        Arc<Tr>, tr(), N_ONE;
        Box<[Tr; 3]>, Arr(3, bx(tr())), N_ONE;
        Box<[Tr; 40]>, Arr(40, bx(tr())), N_ONE;
        Rc<[Tr; 8]>, Arr(8, bx(tr())), N_ONE;
        Arc<[Tr; 8]>, Arr(8, bx(tr())), N_ONE;
        Vec<Tr>, Seq(bx(tr())), N_BIG;
        VecDeque<Tr>, Seq(bx(tr())), N_BIG;
        BinaryHeap<Tr>, Seq(bx(tr())), N_BIG;
        LinkedList<Tr>, Seq(bx(tr())), N_SEQ;
        BTreeSet<Tr>, Seq(bx(tr())), N_SEQ;
        BTreeMap<Tr, Tr>, Map(bx(tr()), bx(tr())), N_SEQ;
        Option<Tr>, OptSome(bx(tr())), N_ONE;
        Result<Tr, Tr>, ResOk(bx(tr())), N_ONE;
        Result<Vec<Tr>, [Tr; 3]>, ResErr(bx(Arr(3, bx(tr())))), N_ONE;
        (Tr, Tr, Tr), Tuple(vec![tr(), tr(), tr()]), N_ONE;
        (Tr, Vec<Tr>, Box<Tr>), Tuple(vec![tr(), Seq(bx(tr())), tr()]), N_SMALL;
        LStruct, Tuple(vec![tr(), Seq(bx(tr())), Arr(3, bx(tr()))]), N_SMALL;
        LEnum, Variant(1, vec![tr(), Arr(2, bx(tr()))]), N_ONE;
        Vec<LEnum>, Seq(bx(Variant(1, vec![tr(), Arr(2, bx(tr()))]))), N_SMALL;
        T1, tr(), N_ONE;
        T2, tr(), N_ONE;
        T3, Arr(4, bx(tr())), N_ONE;
        T4, t4(), N_ONE;
        P4, t4(), N_ONE;
        Box<T1>, tr(), N_ONE;
        Box<T2>, tr(), N_ONE;
        Box<T3>, Arr(4, bx(tr())), N_ONE;
        Box<T4>, t4(), N_ONE;
        Box<P4>, t4(), N_ONE;
        [T1; 5], Arr(5, bx(tr())), N_ONE;
        [T4; 3], Arr(3, bx(t4())), N_ONE;
        [P4; 3], Arr(3, bx(t4())), N_ONE;
        Vec<T4>, Seq(bx(t4())), N_SMALL;
        Rc<[T4; 2]>, Arr(2, bx(t4())), N_ONE;
        T5, t4(), N_ONE;
        Box<T5>, t4(), N_ONE;
        [T5; 2], Arr(2, bx(t4())), N_ONE;
        Arc<T5>, t4(), N_ONE;
        T6, t6(), N_ONE;
        Box<T6>, t6(), N_ONE;
        Rc<[T6; 2]>, Arr(2, bx(t6())), N_ONE;
        T7, t7(), N_ONE;
        Box<T7>, t7(), N_ONE;
        [T7; 2], Arr(2, bx(t7())), N_ONE;
        [Zd; 3], Arr(3, bx(zd())), N_ONE;
        Box<[Zd; 4]>, Arr(4, bx(zd())), N_ONE;
        [[Zd; 2]; 2], Arr(2, bx(Arr(2, bx(zd())))), N_ONE;
        Vec<[Zd; 2]>, Seq(bx(Arr(2, bx(zd())))), N_SMALL;
        Vec<Zd>, Seq(bx(zd())), N_SMALL;
        (Tr, [Zd; 2], Tr), Tuple(vec![tr(), Arr(2, bx(zd())), tr()]), N_ONE;
        Rc<[Zd; 5]>, Arr(5, bx(zd())), N_ONE;
        Option<Box<[Zd; 2]>>, OptSome(bx(Arr(2, bx(zd())))), N_ONE;
        generic_array::GenericArray<Tr, generic_array::typenum::U3>, Arr(3, bx(tr())), N_ONE;
        Box<generic_array::GenericArray<Tr, generic_array::typenum::U5>>, Arr(5, bx(tr())), N_ONE;
        Vec<Option<Tr>>, Seq(bx(OptSome(bx(tr())))), N_SMALL;
        Vec<Result<Tr, Tr>>, Seq(bx(ResErr(bx(tr())))), N_SMALL;
        LinkedList<[Tr; 2]>, Seq(bx(Arr(2, bx(tr())))), N_SMALL;
        VecDeque<Box<Tr>>, Seq(bx(tr())), N_SMALL;
        Box<Box<Tr>>, tr(), N_ONE;
        Rc<Rc<Tr>>, tr(), N_ONE;
        BTreeMap<Tr, [Tr; 2]>, Map(bx(tr()), bx(Arr(2, bx(tr())))), N_SMALL;
        BTreeSet<Tr>, Seq(bx(tr())), N_BIG;
        (Vec<Tr>, Vec<Tr>), Tuple(vec![Seq(bx(tr())), Seq(bx(tr()))]), N_SMALL;
        Option<Rc<[Tr; 3]>>, OptSome(bx(Arr(3, bx(tr())))), N_ONE;
        Vec<[Tr; 3]>, Seq(bx(Arr(3, bx(tr())))), N_SMALL;
        [Vec<Tr>; 3], Arr(3, bx(Seq(bx(tr())))), N_SMALL;
        Box<[Box<Tr>; 4]>, Arr(4, bx(tr())), N_ONE;
        [[Tr; 3]; 3], Arr(3, bx(Arr(3, bx(tr())))), N_ONE;
        Option<Box<[Tr; 5]>>, OptSome(bx(Arr(5, bx(tr())))), N_ONE;
        Vec<Vec<Tr>>, Seq(bx(Seq(bx(tr())))), N_SMALL;
        Vec<Box<[Tr; 2]>>, Seq(bx(Arr(2, bx(tr())))), N_SMALL;
        BTreeMap<Tr, Vec<Tr>>, Map(bx(tr()), bx(Seq(bx(tr())))), N_SMALL;
        LinkedList<Box<T3>>, Seq(bx(Arr(4, bx(tr())))), N_SMALL;
        Arc<Vec<Rc<Tr>>>, Seq(bx(tr())), N_SMALL;
    }
    v
}

static CONTS: std::sync::OnceLock<Vec<LCont>> = std::sync::OnceLock::new();
fn conts() -> &'static Vec<LCont> {
    CONTS.get_or_init(containers)
}

/// (container index, N) pairs
fn instances() -> Vec<(usize, usize)> {
    let mut v = Vec::new();
    for (i, c) in conts().iter().enumerate() {
        for n in c.ns {
            v.push((i, *n));
        }
    }
    v
}

const BASES: [Base; 3] = [Base::SimInput, Base::Slice, Base::SimRead];

pub struct LedgerScn;

#[derive(Debug)]
struct Outcome {
    class: &'static str,
    z_live_before_drop: i64,
    z_leaked: i64,
    z_over_dropped: u32,
    live_before_drop: usize,
    leaked: usize,
    double_drops: u32,
    constructed: u32,
    net_heap: isize,
    fired: bool,
    calls: (u32, u32, u32, u32, u32),
    trace: crate::seams::Trace,
    foreign_panic: Option<String>,
}

/// One decode under one fault; returns what the ledger and the allocator saw.
fn one_run(c: &LCont, data: &[u8], src: &SourceSpec, ef: EF) -> Outcome {
    ledger_reset(ef);
    let mut base = BaseInput::new(src, data);
    set_layers(&src.layers, false);
    window_begin();
    let r = std::panic::catch_unwind(std::panic::AssertUnwindSafe(|| (c.decode)(base.as_dyn(), &src.layers)));
    let mut foreign_panic = None;
    let z_before = |()| LEDGER.with(|l| l.borrow().z_live);
    let mut z_live_before_drop = 0;
    let (class, live_before_drop) = match r {
        Ok(Ok(v)) => {
            z_live_before_drop = z_before(());
            let live = LEDGER.with(|l| l.borrow().n_live);
            drop(v);
            ("ok", live)
        },
        Ok(Err(e)) => {
            z_live_before_drop = z_before(());
            let live = LEDGER.with(|l| l.borrow().n_live);
            drop(e);
            ("err", live)
        },
        Err(p) => {
            z_live_before_drop = z_before(());
            let live = LEDGER.with(|l| l.borrow().n_live);
            if p.downcast_ref::<crate::InjectedPanic>().is_none() {
                foreign_panic = Some(if let Some(s) = p.downcast_ref::<&str>() { s.to_string() } else if let Some(s) = p.downcast_ref::<String>() { s.clone() } else { "?".into() });
            }
            drop(p);
            ("panic", live)
        },
    };
    let w = window_end();
    let _ = take_layer_report();
    let calls = match &base {
        BaseInput::SimInput(i) => (i.read_calls, i.descend_calls, i.alloc_calls, i.all_calls, 0),
        BaseInput::SimRead(r) => (0, 0, 0, 0, r.0.call),
        _ => (0, 0, 0, 0, 0),
    };
    let rep = base.finish();
    let (leaked, dd, constructed, fired) = LEDGER.with(|l| {
        let l = l.borrow();
        (l.n_live, l.double_drops, l.constructed, l.fired)
    });
    let (z_leaked, z_over) = LEDGER.with(|l| {
        let l = l.borrow();
        (l.z_live, l.z_over_dropped)
    });
    Outcome { class, z_live_before_drop, z_leaked, z_over_dropped: z_over, live_before_drop, leaked, double_drops: dd, constructed, net_heap: w.live, fired, calls, trace: rep.trace, foreign_panic }
}

fn judge(c: &LCont, n: usize, what: &str, o: &Outcome, expected_tr: u32, expected_zd: u32) -> Verdict {
    if o.z_over_dropped > 0 {
        return viol("c10.double_drop", format!("{} (N={}) under {}: zero-sized droppable elements were dropped {} time(s) more often than constructed", c.name, n, what, o.z_over_dropped));
    }
    if o.z_leaked > 0 {
        return viol("c10.leak_elements", format!("{} (N={}) under {}: {} zero-sized droppable element(s) never dropped (outcome {})", c.name, n, what, o.z_leaked, o.class));
    }
    if o.class != "ok" && o.z_live_before_drop > 0 {
        return viol("c10.late_drop", format!("{} (N={}) under {}: {} zero-sized element(s) still alive when the failed call returned", c.name, n, what, o.z_live_before_drop));
    }
    if o.class == "ok" && o.z_live_before_drop != expected_zd as i64 {
        return viol("c10.incomplete_value", format!("{} (N={}) under {}: decode succeeded holding {} live zero-sized elements, {} expected", c.name, n, what, o.z_live_before_drop, expected_zd));
    }
    if let Some(p) = &o.foreign_panic {
        return viol("c10.unexpected_panic", format!("{} (N={}) under {}: the library panicked: {}", c.name, n, what, p));
    }
    if o.double_drops > 0 {
        return viol("c10.double_drop", format!("{} (N={}) under {}: {} element(s) dropped twice", c.name, n, what, o.double_drops));
    }
    if o.leaked > 0 {
        return viol("c10.leak_elements", format!("{} (N={}) under {}: {} of {} constructed element(s) never dropped (outcome {})", c.name, n, what, o.leaked, o.constructed, o.class));
    }
    if o.class != "ok" && o.live_before_drop > 0 {
        return viol("c10.late_drop", format!("{} (N={}) under {}: {} element(s) still alive when the failed call returned", c.name, n, what, o.live_before_drop));
    }
    if o.class == "ok" && o.live_before_drop as u32 != expected_tr {
        return viol("c10.incomplete_value", format!("{} (N={}) under {}: decode succeeded holding {} live elements, {} expected", c.name, n, what, o.live_before_drop, expected_tr));
    }
    if o.net_heap != 0 {
        return viol("c10.leak_heap", format!("{} (N={}) under {}: {} bytes requested during the call were never released (outcome {})", c.name, n, what, o.net_heap, o.class));
    }
    Ok(())
}

impl Scenario for LedgerScn {
    fn name(&self) -> &'static str {
        "ledger"
    }
    fn property(&self) -> &'static str {
        "C10"
    }
    fn level(&self) -> &'static str {
        "fault_enumeration"
    }
    fn rule(&self) -> &'static str {
        "one case = (container type, N, base source); inside the case EVERY fault position of EVERY kind is enumerated after a fault-free dry run has counted the calls: element decoder returns Err at element k (all k), element decoder panics at element k (all k), malformed zero-sized field at each of its positions, input truncated at every byte, read error at every read call (with and without partial consumption; SimInput), I/O error at every Read::read call (SimRead), descend_ref error at every call, on_before_alloc_mem error at every call, panic inside the input at every call, binding depth limits 0..=4 and mem limits at 8 spread values, each also under non-binding wrapper layers; oracles: ledger (constructed == dropped, nothing dropped twice, nothing alive after a failed call returns, all expected elements alive after success) and allocator (net bytes requested during call + drop of the result == 0); every run is one sub-run; non-trivial = every run in which a fault fired"
    }
    fn cases(&self, _tier: Tier) -> u64 {
        cap((instances().len() * BASES.len()) as u64)
    }
    fn exhaustive(&self) -> bool {
        false
    }
    fn gen(&self, _seed: u64, idx: u64, _tier: Tier) -> Plan {
        let inst = instances();
        let (ci, n) = inst[(idx as usize / BASES.len()) % inst.len()];
        let base = BASES[idx as usize % BASES.len()];
        let c = &conts()[ci];
        let mut p = Plan::new("ledger", c.name);
        p.set("fix_container", ci as i64);
        p.set("fix_n", n as i64);
        let mut s = SourceSpec::with_base(base);
        if base == Base::SimInput {
            s.known_len = idx % 2 == 0;
            s.own_read_byte = idx % 4 < 2;
        }
        if base == Base::SimRead {
            s.chunks = vec![3, 1, 2];
        }
        p.sources.push(s);
        p
    }
    fn narrow(&self, plan: &Plan, v: &Violation) -> Option<Plan> {
        let i = v.detail.rfind("[run ")?;
        let rest = &v.detail[i + 5..];
        let k: i64 = rest.split(' ').next()?.parse().ok()?;
        let mut p = plan.clone();
        p.set("fix_only_run", k);
        Some(p)
    }
    fn run(&self, plan: &Plan, st: &mut Stats) -> Verdict {
        let c = &conts()[plan.param("fix_container") as usize];
        let n = plan.param("fix_n") as usize;
        if cfg!(miri) && n > 8 {
            // the interpreter is ~1000x slower: big instances are left to the native run
            return Ok(());
        }
        let mut b = Built { bytes: Vec::new(), n_tr: 0, n_zd: 0, zf_offsets: Vec::new(), next_payload: 100 };
        build(&c.shape, n, &mut b);
        let src0 = plan.source0();
        // A single explicit fault (replay of a minimised plan) or the full enumeration.
        let mut runs: Vec<(String, Vec<u8>, SourceSpec, EF)> = Vec::new();
        // dry run
        let dry = one_run(c, &b.bytes, &src0, EF::None);
        st.note(salt(&[c.name, &src0.describe(), "dry", dry.class]), &dry.trace, true);
        if dry.class != "ok" {
            return viol("harness.dry_run_failed", format!("harness: fault-free decode of {} N={} failed: {:?}", c.name, n, dry));
        }
        judge(c, n, "no fault", &dry, b.n_tr, b.n_zd)?;
        let (read_calls, descend_calls, alloc_calls, all_calls, io_calls) = dry.calls;
        let layer_variants: Vec<Vec<Layer>> = vec![vec![], vec![Layer::Counted, Layer::Mem(u64::MAX)], vec![Layer::Depth(u32::MAX), Layer::Counted]];
        // Big instances (N > 100): positions are sampled (every 61st, around multiples of the
        // 1024-element chunk, first and last); complete otherwise.
        let big = b.n_tr > 100;
        let keep = |k: u32, total: u32| -> bool { !big || k % 61 == 0 || k + 2 >= total || (k % 1024 <= 2) || (k % 1024 >= 1022) };
        let keep_byte = |k: usize, total: usize| -> bool { !big || k % 131 == 0 || k + 3 >= total || (k % 2048 <= 4) || (k % 2048 >= 2044) };
        let n_elem = b.n_tr + b.n_zd;
        for k in 0..n_elem {
            if !keep(k, n_elem) {
                continue;
            }
            runs.push((format!("element decoder Err at element {k}"), b.bytes.clone(), src0.clone(), EF::ErrAt(k)));
            runs.push((format!("element decoder panic at element {k}"), b.bytes.clone(), src0.clone(), EF::PanicAt(k)));
        }
        for (zi, off) in b.zf_offsets.iter().enumerate() {
            let mut d = b.bytes.clone();
            d[*off] = 1;
            runs.push((format!("malformed zero-sized field #{zi}"), d, src0.clone(), EF::None));
        }
        for cut in 0..b.bytes.len() {
            if !keep_byte(cut, b.bytes.len()) {
                continue;
            }
            let mut s = src0.clone();
            s.faults.push(Fault::EofAt { byte: cut as u32 });
            runs.push((format!("input exhausted after {cut} bytes"), b.bytes.clone(), s, EF::None));
        }
        for k in 1..=read_calls {
            if !keep(k, read_calls + 1) {
                continue;
            }
            for partial in [false, true] {
                let mut s = src0.clone();
                s.faults.push(Fault::ReadErrAt { call: k, partial });
                runs.push((format!("read error at read call {k} (partial={partial})"), b.bytes.clone(), s, EF::None));
            }
        }
        for k in 1..=io_calls {
            if !keep(k, io_calls + 1) {
                continue;
            }
            let mut s = src0.clone();
            s.faults.push(Fault::IoErrAt { call: k, kind: k as u8 });
            runs.push((format!("io error at Read::read call {k}"), b.bytes.clone(), s, EF::None));
            let mut s = src0.clone();
            s.faults.push(Fault::InputPanicAt { call: k });
            runs.push((format!("panic inside Read::read call {k}"), b.bytes.clone(), s, EF::None));
        }
        for k in 1..=descend_calls {
            let mut s = src0.clone();
            s.faults.push(Fault::DescendErrAt { call: k });
            runs.push((format!("descend_ref error at call {k}"), b.bytes.clone(), s, EF::None));
        }
        for k in 1..=alloc_calls {
            let mut s = src0.clone();
            s.faults.push(Fault::AllocErrAt { call: k });
            runs.push((format!("on_before_alloc_mem error at call {k}"), b.bytes.clone(), s, EF::None));
        }
        for k in 1..=all_calls {
            if !keep(k, all_calls + 1) {
                continue;
            }
            let mut s = src0.clone();
            s.faults.push(Fault::InputPanicAt { call: k });
            runs.push((format!("panic inside the input at call {k}"), b.bytes.clone(), s, EF::None));
        }
        for l in 0..=4u32 {
            let mut s = src0.clone();
            s.layers = vec![Layer::Depth(l)];
            runs.push((format!("depth limit {l}"), b.bytes.clone(), s, EF::None));
        }
        for l in [0u64, 1, 2, 8, 16, 64, 400, 2000] {
            let mut s = src0.clone();
            s.layers = vec![Layer::Mem(l)];
            runs.push((format!("mem limit {l}"), b.bytes.clone(), s, EF::None));
        }
        // element faults again under wrapper layers (unwinding through the wrappers)
        for lv in &layer_variants[1..] {
            for k in 0..n_elem.min(6) {
                let mut s = src0.clone();
                s.layers = lv.clone();
                runs.push((format!("element decoder panic at element {k} under {:?}", lv), b.bytes.clone(), s.clone(), EF::PanicAt(k)));
                runs.push((format!("element decoder Err at element {k} under {:?}", lv), b.bytes.clone(), s, EF::ErrAt(k)));
            }
        }
        let what_examples: Vec<String> = runs.iter().step_by((runs.len() / 6).max(1)).map(|r| r.0.clone()).take(8).collect();
        let only = if plan.has("fix_only_run") { Some(plan.param("fix_only_run") as usize) } else { None };
        let total = runs.len();
        for (i, (what, data, src, ef)) in runs.into_iter().enumerate() {
            if let Some(o) = only {
                if o != i {
                    continue;
                }
            }
            let o = one_run(c, &data, &src, ef);
            let fired = o.fired || o.trace.any_error_fault_fired() || o.class != "ok";
            st.note(salt(&[c.name, &n.to_string(), &src.describe(), &what.split(" at ").next().unwrap_or("").to_string(), o.class]), &o.trace, fired);
            st.fire(match ef {
                EF::ErrAt(_) => "elem_err",
                EF::PanicAt(_) => "elem_panic",
                EF::None => "other_fault_position",
            });
            if o.class == "ok" {
                st.probe("fault_did_not_bind");
            }
            if o.class == "panic" {
                st.probe("unwound");
            }
            if let Err(mut v) = judge(c, n, &what, &o, b.n_tr, b.n_zd) {
                v.detail = format!("{} [run {} of {} in this case; source {}]", v.detail, i, total, src.describe());
                return Err(v);
            }
        }
        *st.exhaustive_parts.entry(if big { "fault_positions_sampled_in_big_instances" } else { "fault_positions_enumerated_completely" }.into()).or_insert(0) += total as u64;
        if total >= 60 {
            st.sample(|| json!({"container": c.name, "N": n, "wire_len": b.bytes.len(), "elements": b.n_tr, "source": src0.describe(), "fault_positions_enumerated": total, "dry_run_calls": {"read": read_calls, "descend": descend_calls, "alloc_hook": alloc_calls, "all": all_calls, "io_read": io_calls}, "example_positions": what_examples}));
        }
        Ok(())
    }
}
