//! Generation of wire bytes for decode-side scenarios: valid encodings (from the reference
//! encoder, so the starting point does not depend on the library), storage faults aimed with the
//! encoder's annotation map, random strings.

use super::*;
use crate::model::{compact_bytes, ref_encode, ref_encode_ann, Ann, AK};

/// The bytes a plan denotes: ref_encode(value) or raw bytes, then mutations, then suffix.
pub fn plan_bytes(plan: &Plan) -> Vec<u8> {
    let cat = catalogue();
    let base = match (&plan.value, &plan.bytes) {
        (Some(v), _) => ref_encode(&cat.get(&plan.subject).schema, v),
        (None, Some(b)) => b.0.clone(),
        _ => vec![],
    };
    let mut b = apply_mutations(&base, &plan.muts);
    b.extend_from_slice(&plan.suffix.0);
    b
}

/// Non-canonical / alternative encodings of a compact value.
pub fn compact_variants(rng: &mut Rng, val: u128) -> Vec<u8> {
    let mut out = Vec::new();
    match rng.below(6) {
        0 if val < (1 << 14) => {
            // two-byte mode
            out.extend_from_slice(&(((val as u16) << 2) | 1).to_le_bytes());
        },
        1 if val < (1 << 30) => {
            out.extend_from_slice(&(((val as u32) << 2) | 2).to_le_bytes());
        },
        2 => {
            // big mode with k bytes (possibly leading zeros / over-wide)
            let k = rng.range(4, 17) as usize;
            out.push((((k - 4) as u8) << 2) | 3);
            for i in 0..k {
                out.push(if i < 16 { (val >> (8 * i)) as u8 } else { 0 });
            }
        },
        3 => {
            // big mode, minimal length + 1 (one leading zero byte)
            let mut k = 16;
            while k > 4 && (val >> ((k - 1) * 8)) == 0 {
                k -= 1;
            }
            let k = (k + 1).min(17);
            out.push((((k - 4) as u8) << 2) | 3);
            for i in 0..k {
                out.push(if i < 16 { (val >> (8 * i)) as u8 } else { 0 });
            }
        },
        4 => {
            // prefix byte with a huge length tag
            out.push(0xff);
            for _ in 0..rng.range(0, 20) {
                out.push(rng.byte());
            }
        },
        _ => compact_bytes(val, &mut out),
    }
    if out.is_empty() {
        compact_bytes(val, &mut out);
    }
    out
}

pub const HOSTILE_COUNTS: [u64; 10] = [1 << 10, 1 << 14, 1 << 16, (1 << 16) + 1, 1 << 20, 1 << 24, (1 << 30) - 1, 1 << 30, 1 << 31, u32::MAX as u64];

/// One grammar-aware storage fault aimed at annotation `a`.
pub fn aimed_mutation(rng: &mut Rng, a: &Ann, total_len: usize) -> Mutation {
    let off = a.off as u32;
    let len = a.len as u32;
    match a.kind {
        AK::Tag => Mutation::ByteSet { pos: off, val: *rng.pick(&[2u8, 3, 0xff, 0x80, 0, 1, 4]) },
        AK::TagOptBool => Mutation::ByteSet { pos: off, val: *rng.pick(&[3u8, 2, 0xff, 4, 0, 1]) },
        AK::Variant => Mutation::ByteSet { pos: off, val: if rng.chance(1, 2) { rng.byte() } else { *rng.pick(&[0u8, 1, 2, 3, 4, 5, 6, 7, 199, 200, 201, 250, 254, 255]) } },
        AK::Count | AK::BitsLen => {
            let mut bytes = Vec::new();
            match rng.below(8) {
                0 => compact_bytes((a.val + 1) as u128, &mut bytes),
                1 => compact_bytes(a.val.saturating_sub(1) as u128, &mut bytes),
                2 | 3 => {
                    let n = if a.kind == AK::BitsLen { *rng.pick(&[(1u64 << 29) - 1, 1 << 29, (1 << 29) + 1, 1 << 20, u32::MAX as u64]) } else { *rng.pick(&HOSTILE_COUNTS) };
                    compact_bytes(n as u128, &mut bytes)
                },
                4 | 5 => bytes = compact_variants(rng, a.val as u128),
                6 => {
                    // just beyond what the remaining payload can back
                    let remaining = total_len.saturating_sub(a.off + a.len) as u64;
                    let per = a.aux.max(1);
                    compact_bytes((remaining / per + 1).min(u32::MAX as u64) as u128, &mut bytes)
                },
                _ => compact_bytes(rng.below(300) as u128, &mut bytes),
            }
            Mutation::Replace { start: off, len, bytes }
        },
        AK::Compact => {
            let w = a.aux as u32;
            let mut bytes = Vec::new();
            match rng.below(5) {
                0 => {
                    // value just beyond the width
                    if w < 16 {
                        compact_bytes(1u128 << (8 * w), &mut bytes)
                    } else {
                        bytes = vec![0x33 | 0x3c, 0xff];
                    }
                },
                1 | 2 => {
                    // re-encode a boundary value non-canonically
                    let val = *rng.pick(&[0u128, 1, 63, 64, 16383, 16384, (1 << 30) - 1, 1 << 30, u32::MAX as u128, 1 << 56, u64::MAX as u128]);
                    bytes = compact_variants(rng, val);
                },
                3 => {
                    bytes.push(rng.byte() | 3);
                    for _ in 0..rng.range(0, 17) {
                        bytes.push(rng.byte());
                    }
                },
                _ => {
                    let v = rng.below(70000) as u128;
                    bytes = compact_variants(rng, v)
                },
            }
            Mutation::Replace { start: off, len, bytes }
        },
        AK::Utf8 => {
            let bad: &[&[u8]] = &[&[0xff], &[0xc0, 0x80], &[0x80], &[0xe0, 0x80], &[0xed, 0xa0, 0x80], &[0xf4, 0x90, 0x80, 0x80], &[0xc2], &[0xf8, 0x88, 0x80, 0x80, 0x80]];
            let b = *rng.pick(bad);
            if len == 0 {
                return Mutation::ByteSet { pos: off, val: 0xff };
            }
            // overwrite (keeps the declared length) at a random position inside the body
            let at = off + rng.below(len as u64) as u32;
            let n = (b.len() as u32).min(off + len - at);
            Mutation::Replace { start: at, len: n, bytes: b[..n as usize].to_vec() }
        },
        AK::Nanos => {
            let v: u32 = *rng.pick(&[1_000_000_000u32, 999_999_999, u32::MAX, 1_000_000_001, 0x3b9a_ca00 | 0x8000_0000]);
            Mutation::Replace { start: off, len, bytes: v.to_le_bytes().to_vec() }
        },
        AK::NonZero => Mutation::Replace { start: off, len, bytes: vec![0; len as usize] },
        AK::Int => Mutation::BitFlip { pos: off + rng.below(len.max(1) as u64) as u32, bit: rng.below(8) as u8 },
        AK::Pad => {
            // set padding bits of the last storage word: must be ignored by the decoder
            Mutation::Replace { start: off, len, bytes: vec![0xff; len as usize] }
        },
    }
}

pub fn blind_mutation(rng: &mut Rng, len: usize) -> Mutation {
    let l = len.max(1) as u64;
    match rng.below(7) {
        0 | 1 => Mutation::BitFlip { pos: rng.below(l) as u32, bit: rng.below(8) as u8 },
        2 => Mutation::ByteSet { pos: rng.below(l) as u32, val: *rng.pick(&[0u8, 1, 2, 3, 0xfc, 0xfd, 0xfe, 0xff, 0x80, 0x7f]) },
        3 => Mutation::Truncate { len: rng.below(l) as u32 },
        4 => Mutation::Extend { bytes: (0..rng.range(1, 12)).map(|_| rng.byte()).collect() },
        5 => Mutation::Duplicate { start: rng.below(l) as u32, len: rng.range(1, 16) as u32 },
        _ => Mutation::Replace { start: rng.below(l) as u32, len: rng.range(0, 4) as u32, bytes: (0..rng.range(0, 6)).map(|_| rng.byte()).collect() },
    }
}

#[derive(Clone, Copy, Debug, PartialEq, Eq)]
pub enum Family {
    Valid,
    ValidSuffix,
    Damaged,
    Truncated,
    Random,
}

/// Fills plan.value / plan.bytes / plan.muts / plan.suffix for subject `s`.
pub fn gen_bytes_into(rng: &mut Rng, s: &Subject, p: &mut Plan, big: bool) -> Family {
    let fam = match rng.below(10) {
        0 | 1 => Family::Valid,
        2 => Family::ValidSuffix,
        3..=6 => Family::Damaged,
        7 => Family::Truncated,
        _ => Family::Random,
    };
    gen_bytes_family(rng, s, p, big, fam);
    fam
}

pub fn gen_bytes_family(rng: &mut Rng, s: &Subject, p: &mut Plan, big: bool, fam: Family) {
    match fam {
        Family::Random => {
            let n = match rng.below(5) {
                0 => rng.range(0, 3),
                1 => rng.range(0, 8),
                _ => rng.range(0, 64),
            } as usize;
            let alphabet: &[u8] = &[0, 1, 2, 3, 4, 8, 0xfc, 0xfd, 0xfe, 0xff, 5, 6, 7, 0x0b, 0x13, 0x80];
            let b = (0..n).map(|_| if rng.chance(2, 3) { *rng.pick(alphabet) } else { rng.byte() }).collect();
            p.bytes = Some(HexBytes(b));
        },
        _ => {
            let v = gen_value(rng, s, big);
            let (enc, ann) = ref_encode_ann(&s.schema, &v);
            p.value = Some(v);
            match fam {
                Family::Valid => {},
                Family::ValidSuffix => p.suffix = HexBytes(gen_suffix(rng)),
                Family::Truncated => {
                    if !enc.is_empty() {
                        p.muts.push(Mutation::Truncate { len: rng.below(enc.len() as u64) as u32 });
                    }
                },
                Family::Damaged => {
                    let n = rng.range(1, 3);
                    for _ in 0..n {
                        if !ann.is_empty() && rng.chance(7, 10) {
                            let a = rng.pick(&ann).clone();
                            p.muts.push(aimed_mutation(rng, &a, enc.len()));
                        } else {
                            p.muts.push(blind_mutation(rng, enc.len()));
                        }
                    }
                    if rng.chance(1, 4) {
                        p.suffix = HexBytes(gen_suffix(rng));
                    }
                },
                Family::Random => unreachable!(),
            }
        },
    }
}
