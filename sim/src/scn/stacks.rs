//! C08 — decoding is independent of the Input implementation.
//! One byte string, one subject, many source stacks; relational oracle (no model needed).
//! C19 — the counting input reports exactly the bytes delivered (scenario `count`).

use super::bytesgen::*;
use super::corrupt::{needs_isolation, slow_by_count, slowish_by_count};
use super::*;
use crate::engine::*;
use crate::seams::{BaseInput, DynInput};
use crate::subjects::Mode;
use parity_scale_codec::{Error, Input};
use serde_json::json;

pub struct Stacks;

fn all_layer_stacks() -> Vec<Vec<Layer>> {
    let ls = [Layer::Counted, Layer::Depth(u32::MAX), Layer::Mem(u64::MAX)];
    let mut out: Vec<Vec<Layer>> = vec![vec![]];
    for a in ls {
        out.push(vec![a]);
        for b in ls {
            out.push(vec![a, b]);
            for c in ls {
                out.push(vec![a, b, c]);
            }
        }
    }
    out
}

pub fn gen_base_only(rng: &mut Rng, base: Base) -> SourceSpec {
    let mut s = SourceSpec::with_base(base);
    match base {
        Base::SimRead => {
            s.chunks = gen_chunks(rng);
            s.eintr = gen_eintr(rng);
        },
        Base::SimInput => {
            s.known_len = rng.chance(1, 2);
            s.own_read_byte = rng.chance(1, 2);
        },
        _ => {},
    }
    s
}

/// Regenerates until the case is neither memory-isolated nor slow-by-count.
pub fn gen_light_bytes(rng: &mut Rng, scn: &str, filter: &dyn Fn(&Subject) -> bool, big_odds: u64) -> (Plan, Family) {
    loop {
        let s = pick_subject(rng, filter);
        let mut p = Plan::new(scn, s.name);
        let big = rng.chance(1, big_odds);
        let fam = gen_bytes_into(rng, s, &mut p, big);
        if s.empty_elem {
            let b = plan_bytes(&p);
            if needs_isolation(s, &b) || slow_by_count(s, &b) || slowish_by_count(s, &b) {
                continue;
            }
        }
        p.set("fix_family", fam as i64);
        return (p, fam);
    }
}

impl Scenario for Stacks {
    fn name(&self) -> &'static str {
        "stacks"
    }
    fn property(&self) -> &'static str {
        "C08"
    }
    fn level(&self) -> &'static str {
        "exploration"
    }
    fn rule(&self) -> &'static str {
        "per case one subject and one byte string (valid, valid+suffix, damaged, truncated, random) decoded through the plain slice (baseline) and 8..50 further source stacks: IoReader<Cursor>, IoReader<SimRead> under several chunk/EINTR schedules (incl. 1 byte per call), SimInput with remaining_len Some/None x read_byte own/defaulted, decode_from_bytes (BytesCursor incl. zero-copy Bytes path), and CountedInput / depth-limit(max) / mem-limit(max) wrappers in every order up to depth 3 (all 40 stacks for inputs <= 64 bytes, sampled otherwise) over a drawn base; every sub-run is one evaluation unit of the signature count; non-trivial = a benign fault fired or more than one seam call or input longer than one byte"
    }
    fn cases(&self, tier: Tier) -> u64 {
        tiered(tier, 400_000, 12_000_000)
    }
    fn gen(&self, seed: u64, idx: u64, _tier: Tier) -> Plan {
        let mut rng = Rng::for_case(seed, "stacks", idx);
        let (mut p, _) = gen_light_bytes(&mut rng, "stacks", &|_| true, 40);
        let len = plan_bytes(&p).len();
        p.sources.push(SourceSpec::slice());
        p.sources.push(SourceSpec::with_base(Base::Cursor));
        p.sources.push(SourceSpec::with_base(Base::FromBytes));
        // SimInput: all four combinations
        for (k, r) in [(true, true), (true, false), (false, true), (false, false)] {
            let mut s = SourceSpec::with_base(Base::SimInput);
            s.known_len = k;
            s.own_read_byte = r;
            p.sources.push(s);
        }
        // SimRead: 1 byte per call, plus drawn schedules
        let mut s1 = SourceSpec::with_base(Base::SimRead);
        s1.chunks = vec![1];
        p.sources.push(s1);
        for _ in 0..rng.range(1, 3) {
            p.sources.push(gen_base_only(&mut rng, Base::SimRead));
        }
        // wrapper stacks
        let stacks = all_layer_stacks();
        let base_kinds = [Base::Slice, Base::Cursor, Base::SimRead, Base::SimInput, Base::FromBytes];
        if len <= 64 && rng.chance(1, 3) {
            let bk = *rng.pick(&base_kinds);
            let b = gen_base_only(&mut rng, bk);
            for st in stacks.iter().skip(1) {
                let mut s = b.clone();
                s.layers = st.clone();
                p.sources.push(s);
            }
        } else {
            for _ in 0..rng.range(2, 4) {
                let bk = *rng.pick(&base_kinds);
                let mut s = gen_base_only(&mut rng, bk);
                s.layers = rng.pick(&stacks[1..]).clone();
                p.sources.push(s);
            }
        }
        p
    }
    fn run(&self, plan: &Plan, st: &mut Stats) -> Verdict {
        let s = catalogue().get(&plan.subject);
        let bytes = plan_bytes(plan);
        let mut baseline: Option<(Result<V, String>, usize, Option<usize>)> = None;
        for (i, src) in plan.sources.iter().enumerate() {
            let out = (s.decode)(&bytes, src, Mode::Decode);
            let class = if out.res.is_ok() { "ok" } else { "err" };
            st.note(salt(&[s.name, &src.describe(), class]), &out.trace, bytes.len() > 1);
            if src.base == Base::FromBytes {
                st.probe("from_bytes_sub_runs");
            }
            if !src.layers.is_empty() {
                st.probe("layered_sub_runs");
            }
            let used: Option<usize> = out.layers.used_mem.first().map(|x| x.1);
            match &baseline {
                None => baseline = Some((out.res.clone(), out.taken, None)),
                Some((bres, btaken, bused)) => {
                    match (bres, &out.res) {
                        (Ok(bv), Ok(v)) => {
                            if bv != v {
                                return viol("c08.value_differs", format!("{}: bytes {}: slice gives {}, source #{} {} gives {}", s.name, hex_short(&bytes), short(bv), i, src.describe(), short(v)));
                            }
                            if *btaken != out.taken {
                                return viol("c08.consumed_differs", format!("{}: bytes {}: slice consumed {}, source #{} {} consumed {}", s.name, hex_short(&bytes), btaken, i, src.describe(), out.taken));
                            }
                            for (li, c) in &out.layers.counted {
                                if *c != out.taken as u64 {
                                    return viol("c08.counted_layer_incoherent", format!("{}: source #{} {}: Counted layer {} reports {} but {} bytes were taken", s.name, i, src.describe(), li, c, out.taken));
                                }
                            }
                            for (li, u) in &out.layers.used_mem {
                                if let Some(b) = bused.or(used) {
                                    if *u != b {
                                        return viol("c08.used_mem_differs", format!("{}: source #{} {}: Mem layer {} reports {} vs {} elsewhere", s.name, i, src.describe(), li, u, b));
                                    }
                                }
                            }
                        },
                        (Err(_), Err(_)) => {},
                        (Ok(bv), Err(e)) => {
                            return viol("c08.outcome_differs", format!("{}: bytes {}: slice decodes {} but source #{} {} fails: {}", s.name, hex_short(&bytes), short(bv), i, src.describe(), e));
                        },
                        (Err(e), Ok(v)) => {
                            return viol("c08.outcome_differs", format!("{}: bytes {}: slice fails ({}) but source #{} {} decodes {}", s.name, hex_short(&bytes), e, i, src.describe(), short(v)));
                        },
                    }
                    if bused.is_none() && used.is_some() {
                        if let Some(b) = &mut baseline {
                            b.2 = used;
                        }
                    }
                },
            }
        }
        st.sample(|| json!({"subject": s.name, "bytes": hex_short(&bytes), "sources": plan.sources.iter().map(|x| x.describe()).collect::<Vec<_>>(), "baseline": baseline.as_ref().map(|b| match &b.0 { Ok(v) => format!("Ok {} taken {}", short(v), b.1), Err(e) => format!("Err {e}") })}));
        Ok(())
    }
}

// ------------------------------------------------------------------------------------------
// C19

/// Harness-side tap between the base and the wrapper stack: records what the wrapped input
/// actually delivered through successful read / read_byte calls.
pub struct Tap<'a> {
    pub inner: &'a mut dyn DynInput,
    pub delivered: u64,
    pub ok_calls: u64,
    pub failed_calls: u64,
}

impl Input for Tap<'_> {
    fn remaining_len(&mut self) -> Result<Option<usize>, Error> {
        self.inner.d_remaining_len()
    }
    fn read(&mut self, into: &mut [u8]) -> Result<(), Error> {
        let r = self.inner.d_read(into);
        if r.is_ok() {
            self.delivered += into.len() as u64;
            self.ok_calls += 1;
        } else {
            self.failed_calls += 1;
        }
        r
    }
    fn read_byte(&mut self) -> Result<u8, Error> {
        let r = self.inner.d_read_byte();
        if r.is_ok() {
            self.delivered += 1;
            self.ok_calls += 1;
        } else {
            self.failed_calls += 1;
        }
        r
    }
    fn descend_ref(&mut self) -> Result<(), Error> {
        self.inner.d_descend_ref()
    }
    fn ascend_ref(&mut self) {
        self.inner.d_ascend_ref()
    }
    fn on_before_alloc_mem(&mut self, size: usize) -> Result<(), Error> {
        self.inner.d_on_before_alloc_mem(size)
    }
}

pub struct Count;

pub fn gen_error_faults(rng: &mut Rng, base: Base, len: usize) -> Vec<Fault> {
    let mut f = Vec::new();
    let n = rng.range(0, 2);
    for _ in 0..n {
        match base {
            Base::SimInput => match rng.below(4) {
                0 | 1 => f.push(Fault::ReadErrAt { call: rng.range(1, 12) as u32, partial: rng.chance(1, 2) }),
                2 => f.push(Fault::EofAt { byte: rng.below(len as u64 + 1) as u32 }),
                _ => f.push(Fault::ReadErrAt { call: rng.range(1, 60) as u32, partial: false }),
            },
            Base::SimRead => match rng.below(3) {
                0 => f.push(Fault::IoErrAt { call: rng.range(1, 20) as u32, kind: rng.byte() }),
                _ => f.push(Fault::EofAt { byte: rng.below(len as u64 + 1) as u32 }),
            },
            _ => f.push(Fault::EofAt { byte: rng.below(len as u64 + 1) as u32 }),
        }
    }
    f
}

impl Scenario for Count {
    fn name(&self) -> &'static str {
        "count"
    }
    fn property(&self) -> &'static str {
        "C19"
    }
    fn level(&self) -> &'static str {
        "fault_enumeration"
    }
    fn rule(&self) -> &'static str {
        "per case one subject, one byte string (valid / damaged / truncated / random) and one source: base (slice, IoReader<Cursor>, IoReader<SimRead>, SimInput) with 0..2 error faults (read error at call k with or without partial consumption, EOF at byte k, I/O error at call k), a recording tap, then a wrapper stack containing at least one CountedInput (position 0..2 among depth/mem layers); oracle after success AND after failure: every CountedInput::count() == bytes delivered by successful read/read_byte calls of the wrapped input as recorded by the tap; after success also == bytes taken from the base; non-trivial = an error fault fired or more than one seam call"
    }
    fn cases(&self, tier: Tier) -> u64 {
        tiered(tier, 3_000_000, 100_000_000)
    }
    fn gen(&self, seed: u64, idx: u64, _tier: Tier) -> Plan {
        let mut rng = Rng::for_case(seed, "count", idx);
        let (mut p, _) = gen_light_bytes(&mut rng, "count", &|_| true, 60);
        let len = plan_bytes(&p).len();
        let base = *rng.pick(&[Base::Slice, Base::Cursor, Base::SimRead, Base::SimRead, Base::SimInput, Base::SimInput, Base::SimInput]);
        let mut s = gen_base_only(&mut rng, base);
        s.faults = gen_error_faults(&mut rng, base, len);
        let mut layers = gen_layers(&mut rng, 2);
        let pos = rng.usize_below(layers.len() + 1);
        layers.insert(pos, Layer::Counted);
        s.layers = layers;
        p.sources.push(s);
        // a third of the cases decode twice through the same CountedInput (multi-step use:
        // reads after a failed read must still be counted)
        // (not for subjects with zero-byte elements: the second decode starts wherever the first
        // one stopped and could hit a hostile count there, which is a different, known matter)
        let twice_ok = !catalogue().get(&p.subject).empty_elem;
        p.set("twice", (rng.chance(1, 3) && twice_ok) as i64);
        p
    }
    fn run(&self, plan: &Plan, st: &mut Stats) -> Verdict {
        let s = catalogue().get(&plan.subject);
        let bytes = plan_bytes(plan);
        let src = plan.source0();
        let mut base = BaseInput::new(&src, &bytes);
        let mode = if plan.param("twice") == 1 { Mode::Twice } else { Mode::Decode };
        if mode == Mode::Twice {
            st.probe("two_decodes_through_one_counter");
        }
        let (out, delivered, failed) = {
            let mut tap = Tap { inner: base.as_dyn(), delivered: 0, ok_calls: 0, failed_calls: 0 };
            let out = (s.decode_dyn)(&mut tap, &src.layers, mode);
            (out, tap.delivered, tap.failed_calls)
        };
        let taken = base.taken();
        let rep = base.finish();
        let class = if out.res.is_ok() { "ok" } else { "err" };
        st.note(salt(&[s.name, &src.describe(), class, &failed.min(2).to_string()]), &rep.trace, bytes.len() > 1);
        if failed > 0 {
            st.probe("runs_with_failed_reads");
        }
        if out.res.is_err() {
            st.probe("failed_decodes");
        }
        if out.layers.counted.is_empty() {
            return viol("harness.no_counted_layer", "harness: Counted layer did not report".into());
        }
        for (li, c) in &out.layers.counted {
            if *c != delivered {
                return viol(
                    "c19.count_mismatch",
                    format!("{}: bytes {} source {} faults {:?}: CountedInput (layer {}) reports {} but the wrapped input delivered {} bytes ({} failed reads; decode {})", s.name, hex_short(&bytes), src.describe(), src.faults, li, c, delivered, failed, class),
                );
            }
        }
        // A plain slice (possibly truncated) delivers exactly what it consumes, also when a read
        // fails: "count() vs original_len - remaining_len of the wrapped slice".
        if matches!(src.base, Base::Slice | Base::Cursor) && src.base == Base::Slice && delivered != taken as u64 {
            return viol("c19.count_vs_consumed", format!("{}: bytes {} source {}: CountedInput reports {} (= bytes delivered by successful reads) but the wrapped slice advanced by {} (decode {})", s.name, hex_short(&bytes), src.describe(), delivered, taken, class));
        }
        if out.res.is_ok() && mode == Mode::Decode && !rep.trace.any_error_fault_fired() && delivered != taken as u64 {
            return viol("c19.count_vs_consumed", format!("{}: bytes {} source {}: delivered {} but base position advanced by {}", s.name, hex_short(&bytes), src.describe(), delivered, taken));
        }
        st.sample(|| json!({"subject": s.name, "bytes": hex_short(&bytes), "source": src.describe(), "faults": format!("{:?}", src.faults), "count": out.layers.counted, "delivered": delivered, "failed_reads": failed, "outcome": class, "trace": rep.trace.log_strings()}));
        Ok(())
    }
}
