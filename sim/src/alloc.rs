//! Accounting layer around the system allocator (seam S5).  Between `window_begin` and
//! `window_end` on the calling thread every request is recorded: live bytes, peak, largest
//! single request, number of requests.  A hard cap turns memory exhaustion into a detectable
//! abort with a fixed marker on stderr.

use std::alloc::{GlobalAlloc, Layout, System};
use std::cell::Cell;
use std::sync::atomic::{AtomicUsize, Ordering};

pub struct Acct;

#[derive(Clone, Copy, Debug, Default)]
pub struct Window {
    pub live: isize,
    pub peak: isize,
    pub largest: usize,
    pub requests: u64,
    pub total: u64,
}

thread_local! {
    static ACTIVE: Cell<bool> = const { Cell::new(false) };
    static HARNESS: Cell<u32> = const { Cell::new(0) };
    static WIN: Cell<Window> = const { Cell::new(Window { live: 0, peak: 0, largest: 0, requests: 0, total: 0 }) };
}

/// Process-wide live bytes (all threads), for the hard cap.
static LIVE: AtomicUsize = AtomicUsize::new(0);
pub static CAP_LIVE: AtomicUsize = AtomicUsize::new(6 << 30);
pub static CAP_SINGLE: AtomicUsize = AtomicUsize::new(2 << 30);

pub const CAP_MARKER: &[u8] = b"\nSCALESIM-ALLOC-CAP-EXCEEDED\n";

extern "C" {
    fn write(fd: i32, buf: *const u8, n: usize) -> isize;
    fn abort() -> !;
}

fn cap_abort() -> ! {
    unsafe {
        write(2, CAP_MARKER.as_ptr(), CAP_MARKER.len());
        abort();
    }
}

#[inline]
fn record_alloc(size: usize) {
    let _ = ACTIVE.try_with(|a| {
        if a.get() && HARNESS.with(|h| h.get()) == 0 {
            WIN.with(|w| {
                let mut x = w.get();
                x.live += size as isize;
                if x.live > x.peak {
                    x.peak = x.live;
                }
                if size > x.largest {
                    x.largest = size;
                }
                x.requests += 1;
                x.total += size as u64;
                w.set(x);
            });
        }
    });
}

#[inline]
fn record_free(size: usize) {
    let _ = ACTIVE.try_with(|a| {
        if a.get() && HARNESS.with(|h| h.get()) == 0 {
            WIN.with(|w| {
                let mut x = w.get();
                x.live -= size as isize;
                w.set(x);
            });
        }
    });
}

unsafe impl GlobalAlloc for Acct {
    unsafe fn alloc(&self, l: Layout) -> *mut u8 {
        if l.size() > CAP_SINGLE.load(Ordering::Relaxed) {
            cap_abort();
        }
        let live = LIVE.fetch_add(l.size(), Ordering::Relaxed) + l.size();
        if live > CAP_LIVE.load(Ordering::Relaxed) {
            cap_abort();
        }
        record_alloc(l.size());
        let p = System.alloc(l);
        if p.is_null() {
            cap_abort();
        }
        p
    }
    unsafe fn dealloc(&self, p: *mut u8, l: Layout) {
        LIVE.fetch_sub(l.size(), Ordering::Relaxed);
        record_free(l.size());
        System.dealloc(p, l)
    }
    unsafe fn alloc_zeroed(&self, l: Layout) -> *mut u8 {
        if l.size() > CAP_SINGLE.load(Ordering::Relaxed) {
            cap_abort();
        }
        let live = LIVE.fetch_add(l.size(), Ordering::Relaxed) + l.size();
        if live > CAP_LIVE.load(Ordering::Relaxed) {
            cap_abort();
        }
        record_alloc(l.size());
        let p = System.alloc_zeroed(l);
        if p.is_null() {
            cap_abort();
        }
        p
    }
    unsafe fn realloc(&self, p: *mut u8, l: Layout, new: usize) -> *mut u8 {
        if new > CAP_SINGLE.load(Ordering::Relaxed) {
            cap_abort();
        }
        if new > l.size() {
            let live = LIVE.fetch_add(new - l.size(), Ordering::Relaxed) + (new - l.size());
            if live > CAP_LIVE.load(Ordering::Relaxed) {
                cap_abort();
            }
        } else {
            LIVE.fetch_sub(l.size() - new, Ordering::Relaxed);
        }
        // realloc counted as replace: the new block is a request of `new` bytes
        record_free(l.size());
        record_alloc(new);
        let q = System.realloc(p, l, new);
        if q.is_null() {
            cap_abort();
        }
        q
    }
}

pub fn window_begin() {
    WIN.with(|w| w.set(Window::default()));
    ACTIVE.with(|a| a.set(true));
}

pub fn window_end() -> Window {
    ACTIVE.with(|a| a.set(false));
    WIN.with(|w| w.get())
}

/// Excludes harness allocations made inside a window (seam callbacks, model conversions).
pub fn harness<R>(f: impl FnOnce() -> R) -> R {
    HARNESS.with(|h| h.set(h.get() + 1));
    let r = f();
    HARNESS.with(|h| h.set(h.get() - 1));
    r
}

pub fn set_caps(live: usize, single: usize) {
    CAP_LIVE.store(live, Ordering::Relaxed);
    CAP_SINGLE.store(single, Ordering::Relaxed);
}
