//! Bridge between concrete Rust types (the subjects) and the reference model.

use crate::model::{PtrKind, SeqKind, S, V};
use bitvec::prelude::{BitBox, BitOrder, BitStore, BitVec, Lsb0, Msb0};
use parity_scale_codec::{Compact, OptionBool};
use std::borrow::Cow;
use std::collections::{BTreeMap, BTreeSet, BinaryHeap, LinkedList, VecDeque};
use std::marker::PhantomData;
use std::mem::size_of;
use std::num::*;
use std::ops::{Range, RangeInclusive};
use std::rc::Rc;
use std::sync::Arc;
use std::time::Duration;

pub trait Modelled: Sized + 'static {
    /// Every value encodes to zero bytes.
    const EMPTY: bool = false;
    /// Primitive with a bulk (transmute) fast path in sequences.
    const BULK: bool = false;
    fn schema() -> S;
    fn to_model(&self) -> V;
    fn from_model(v: &V) -> Self;
    fn seq_to_model<'a>(items: impl Iterator<Item = &'a Self>, len: usize) -> V
    where
        Self: 'a,
    {
        if Self::EMPTY {
            let e = Self::schema().empty_value();
            V::Rep(len as u64, Box::new(e))
        } else {
            V::Seq(items.map(|x| x.to_model()).collect())
        }
    }
    fn seq_from_model(v: &V) -> Vec<Self> {
        match v {
            V::Seq(items) => items.iter().map(Self::from_model).collect(),
            V::Rep(n, e) => (0..*n).map(|_| Self::from_model(e)).collect(),
            _ => panic!("modelled: expected sequence, got {:?}", v),
        }
    }
    /// Bytes of decoded data this value holds on the heap (C12 lower bound).
    fn heap_payload(&self) -> usize {
        0
    }
}

macro_rules! impl_uint {
    ($($t:ty),*) => {$(
        impl Modelled for $t {
            const BULK: bool = true;
            fn schema() -> S { S::UInt(size_of::<$t>() as u8) }
            fn to_model(&self) -> V { V::U(*self as u128) }
            fn from_model(v: &V) -> Self { v.as_u() as $t }
        }
    )*}
}
impl_uint!(u16, u32, u64, u128);

impl Modelled for u8 {
    const BULK: bool = true;
    fn schema() -> S {
        S::UInt(1)
    }
    fn to_model(&self) -> V {
        V::U(*self as u128)
    }
    fn from_model(v: &V) -> Self {
        v.as_u() as u8
    }
    fn seq_to_model<'a>(items: impl Iterator<Item = &'a Self>, _len: usize) -> V {
        V::Blob(items.copied().collect())
    }
    fn seq_from_model(v: &V) -> Vec<Self> {
        v.as_blob().to_vec()
    }
}

macro_rules! impl_int {
    ($($t:ty),*) => {$(
        impl Modelled for $t {
            const BULK: bool = true;
            fn schema() -> S { S::Int(size_of::<$t>() as u8) }
            fn to_model(&self) -> V { V::I(*self as i128) }
            fn from_model(v: &V) -> Self { v.as_i() as $t }
        }
    )*}
}
impl_int!(i8, i16, i32, i64, i128);

impl Modelled for f32 {
    const BULK: bool = true;
    fn schema() -> S {
        S::F32
    }
    fn to_model(&self) -> V {
        V::F32(self.to_bits())
    }
    fn from_model(v: &V) -> Self {
        match v {
            V::F32(b) => f32::from_bits(*b),
            _ => panic!("modelled: f32"),
        }
    }
}
impl Modelled for f64 {
    const BULK: bool = true;
    fn schema() -> S {
        S::F64
    }
    fn to_model(&self) -> V {
        V::F64(self.to_bits())
    }
    fn from_model(v: &V) -> Self {
        match v {
            V::F64(b) => f64::from_bits(*b),
            _ => panic!("modelled: f64"),
        }
    }
}

impl Modelled for bool {
    fn schema() -> S {
        S::Bool
    }
    fn to_model(&self) -> V {
        V::Bool(*self)
    }
    fn from_model(v: &V) -> Self {
        matches!(v, V::Bool(true))
    }
}

impl Modelled for () {
    const EMPTY: bool = true;
    fn schema() -> S {
        S::Unit
    }
    fn to_model(&self) -> V {
        V::Unit
    }
    fn from_model(_: &V) -> Self {}
}

impl<T: 'static> Modelled for PhantomData<T> {
    const EMPTY: bool = true;
    fn schema() -> S {
        S::Unit
    }
    fn to_model(&self) -> V {
        V::Unit
    }
    fn from_model(_: &V) -> Self {
        PhantomData
    }
}

macro_rules! impl_compact {
    ($($t:ty),*) => {$(
        impl Modelled for Compact<$t> {
            fn schema() -> S { S::Compact(size_of::<$t>() as u8) }
            fn to_model(&self) -> V { V::U(self.0 as u128) }
            fn from_model(v: &V) -> Self { Compact(v.as_u() as $t) }
        }
    )*}
}
impl_compact!(u8, u16, u32, u64, u128);

impl Modelled for Compact<()> {
    const EMPTY: bool = true;
    fn schema() -> S {
        S::CompactUnit
    }
    fn to_model(&self) -> V {
        V::Unit
    }
    fn from_model(_: &V) -> Self {
        Compact(())
    }
}

macro_rules! impl_nzu {
    ($($t:ty, $p:ty);*) => {$(
        impl Modelled for $t {
            fn schema() -> S { S::NonZeroU(size_of::<$p>() as u8) }
            fn to_model(&self) -> V { V::U(self.get() as u128) }
            fn from_model(v: &V) -> Self { <$t>::new(v.as_u() as $p).expect("modelled: nonzero") }
        }
    )*}
}
impl_nzu!(NonZeroU8, u8; NonZeroU16, u16; NonZeroU32, u32; NonZeroU64, u64; NonZeroU128, u128);
macro_rules! impl_nzi {
    ($($t:ty, $p:ty);*) => {$(
        impl Modelled for $t {
            fn schema() -> S { S::NonZeroI(size_of::<$p>() as u8) }
            fn to_model(&self) -> V { V::I(self.get() as i128) }
            fn from_model(v: &V) -> Self { <$t>::new(v.as_i() as $p).expect("modelled: nonzero") }
        }
    )*}
}
impl_nzi!(NonZeroI8, i8; NonZeroI16, i16; NonZeroI32, i32; NonZeroI64, i64; NonZeroI128, i128);

impl Modelled for OptionBool {
    fn schema() -> S {
        S::OptBool
    }
    fn to_model(&self) -> V {
        V::OptBool(self.0)
    }
    fn from_model(v: &V) -> Self {
        match v {
            V::OptBool(o) => OptionBool(*o),
            _ => panic!("modelled: optbool"),
        }
    }
}

impl Modelled for Duration {
    fn schema() -> S {
        S::Duration
    }
    fn to_model(&self) -> V {
        V::Tuple(vec![V::U(self.as_secs() as u128), V::U(self.subsec_nanos() as u128)])
    }
    fn from_model(v: &V) -> Self {
        let t = v.as_tuple();
        Duration::new(t[0].as_u() as u64, t[1].as_u() as u32)
    }
}

impl<T: Modelled> Modelled for Range<T> {
    fn schema() -> S {
        S::Range(Box::new(T::schema()))
    }
    fn to_model(&self) -> V {
        V::Tuple(vec![self.start.to_model(), self.end.to_model()])
    }
    fn from_model(v: &V) -> Self {
        let t = v.as_tuple();
        T::from_model(&t[0])..T::from_model(&t[1])
    }
}
impl<T: Modelled> Modelled for RangeInclusive<T> {
    fn schema() -> S {
        S::Range(Box::new(T::schema()))
    }
    fn to_model(&self) -> V {
        V::Tuple(vec![self.start().to_model(), self.end().to_model()])
    }
    fn from_model(v: &V) -> Self {
        let t = v.as_tuple();
        T::from_model(&t[0])..=T::from_model(&t[1])
    }
}

impl<T: Modelled> Modelled for Option<T> {
    fn schema() -> S {
        S::Opt(Box::new(T::schema()))
    }
    fn to_model(&self) -> V {
        V::Opt(self.as_ref().map(|x| Box::new(x.to_model())))
    }
    fn from_model(v: &V) -> Self {
        match v {
            V::Opt(o) => o.as_ref().map(|x| T::from_model(x)),
            _ => panic!("modelled: option {:?}", v),
        }
    }
    fn heap_payload(&self) -> usize {
        self.as_ref().map_or(0, |x| x.heap_payload())
    }
}

impl<T: Modelled, E: Modelled> Modelled for Result<T, E> {
    fn schema() -> S {
        S::Res(Box::new(T::schema()), Box::new(E::schema()))
    }
    fn to_model(&self) -> V {
        V::Res(match self {
            Ok(x) => Ok(Box::new(x.to_model())),
            Err(x) => Err(Box::new(x.to_model())),
        })
    }
    fn from_model(v: &V) -> Self {
        match v {
            V::Res(Ok(x)) => Ok(T::from_model(x)),
            V::Res(Err(x)) => Err(E::from_model(x)),
            _ => panic!("modelled: result"),
        }
    }
    fn heap_payload(&self) -> usize {
        match self {
            Ok(x) => x.heap_payload(),
            Err(x) => x.heap_payload(),
        }
    }
}

macro_rules! impl_tuple {
    ($(($($n:tt $t:ident),+))*) => {$(
        impl<$($t: Modelled),+> Modelled for ($($t,)+) {
            const EMPTY: bool = true $(&& $t::EMPTY)+;
            fn schema() -> S { S::Tuple(vec![$($t::schema()),+]) }
            fn to_model(&self) -> V { V::Tuple(vec![$(self.$n.to_model()),+]) }
            fn from_model(v: &V) -> Self { let t = v.as_tuple(); ($($t::from_model(&t[$n]),)+) }
            fn heap_payload(&self) -> usize { 0 $(+ self.$n.heap_payload())+ }
        }
    )*}
}
impl_tuple! {
    (0 A)
    (0 A, 1 B)
    (0 A, 1 B, 2 C)
    (0 A, 1 B, 2 C, 3 D)
    (0 A, 1 B, 2 C, 3 D, 4 E, 5 F, 6 G, 7 H, 8 I, 9 J, 10 K, 11 L, 12 M, 13 N, 14 O, 15 P, 16 Q, 17 R)
}

fn seq_schema<T: Modelled>(k: SeqKind) -> S {
    S::Seq(k, Box::new(T::schema()), size_of::<T>(), T::BULK)
}

impl<T: Modelled> Modelled for Vec<T> {
    fn schema() -> S {
        seq_schema::<T>(SeqKind::Vec)
    }
    fn to_model(&self) -> V {
        T::seq_to_model(self.iter(), self.len())
    }
    fn from_model(v: &V) -> Self {
        T::seq_from_model(v)
    }
    fn heap_payload(&self) -> usize {
        self.len() * size_of::<T>() + self.iter().map(|x| x.heap_payload()).sum::<usize>()
    }
}

impl<T: Modelled> Modelled for VecDeque<T> {
    fn schema() -> S {
        seq_schema::<T>(SeqKind::Deque)
    }
    fn to_model(&self) -> V {
        T::seq_to_model(self.iter(), self.len())
    }
    fn from_model(v: &V) -> Self {
        T::seq_from_model(v).into()
    }
    fn heap_payload(&self) -> usize {
        self.len() * size_of::<T>() + self.iter().map(|x| x.heap_payload()).sum::<usize>()
    }
}

impl<T: Modelled> Modelled for LinkedList<T> {
    fn schema() -> S {
        seq_schema::<T>(SeqKind::List)
    }
    fn to_model(&self) -> V {
        T::seq_to_model(self.iter(), self.len())
    }
    fn from_model(v: &V) -> Self {
        T::seq_from_model(v).into_iter().collect()
    }
    fn heap_payload(&self) -> usize {
        self.len() * size_of::<T>() + self.iter().map(|x| x.heap_payload()).sum::<usize>()
    }
}

impl<T: Modelled + Ord + Clone> Modelled for BinaryHeap<T> {
    fn schema() -> S {
        seq_schema::<T>(SeqKind::Heap)
    }
    fn to_model(&self) -> V {
        let mut m = match T::seq_to_model(self.iter(), self.len()) {
            V::Seq(x) => x,
            V::Blob(b) => {
                let mut b = b;
                b.sort();
                return V::Blob(b);
            },
            other => return other,
        };
        m.sort();
        V::Seq(m)
    }
    fn from_model(v: &V) -> Self {
        T::seq_from_model(v).into()
    }
    fn heap_payload(&self) -> usize {
        self.len() * size_of::<T>() + self.iter().map(|x| x.heap_payload()).sum::<usize>()
    }
}

impl<K: Modelled + Ord, W: Modelled> Modelled for BTreeMap<K, W> {
    fn schema() -> S {
        S::Map(Box::new(K::schema()), Box::new(W::schema()))
    }
    fn to_model(&self) -> V {
        V::Map(self.iter().map(|(k, v)| (k.to_model(), v.to_model())).collect())
    }
    fn from_model(v: &V) -> Self {
        match v {
            V::Map(items) => items.iter().map(|(a, b)| (K::from_model(a), W::from_model(b))).collect(),
            _ => panic!("modelled: map"),
        }
    }
    fn heap_payload(&self) -> usize {
        // "within a factor of two for tree maps and sets"
        self.len() * size_of::<(K, W)>() / 2 + self.iter().map(|(k, v)| k.heap_payload() + v.heap_payload()).sum::<usize>()
    }
}

impl<T: Modelled + Ord> Modelled for BTreeSet<T> {
    fn schema() -> S {
        S::Set(Box::new(T::schema()))
    }
    fn to_model(&self) -> V {
        V::Seq(self.iter().map(|x| x.to_model()).collect())
    }
    fn from_model(v: &V) -> Self {
        match v {
            V::Seq(items) => items.iter().map(T::from_model).collect(),
            _ => panic!("modelled: set"),
        }
    }
    fn heap_payload(&self) -> usize {
        self.len() * size_of::<T>() / 2 + self.iter().map(|x| x.heap_payload()).sum::<usize>()
    }
}

impl Modelled for String {
    fn schema() -> S {
        S::Str
    }
    fn to_model(&self) -> V {
        V::Blob(self.as_bytes().to_vec())
    }
    fn from_model(v: &V) -> Self {
        String::from_utf8(v.as_blob().to_vec()).expect("modelled: utf8")
    }
    fn heap_payload(&self) -> usize {
        self.len()
    }
}

impl Modelled for Cow<'static, str> {
    fn schema() -> S {
        S::Ptr(PtrKind::Cow, Box::new(S::Str))
    }
    fn to_model(&self) -> V {
        V::Blob(self.as_bytes().to_vec())
    }
    fn from_model(v: &V) -> Self {
        Cow::Owned(String::from_model(v))
    }
    fn heap_payload(&self) -> usize {
        self.len()
    }
}

impl Modelled for Cow<'static, [u8]> {
    fn schema() -> S {
        S::Ptr(PtrKind::Cow, Box::new(seq_schema::<u8>(SeqKind::Vec)))
    }
    fn to_model(&self) -> V {
        V::Blob(self.to_vec())
    }
    fn from_model(v: &V) -> Self {
        Cow::Owned(v.as_blob().to_vec())
    }
    fn heap_payload(&self) -> usize {
        self.len()
    }
}

impl Modelled for Cow<'static, [u32]> {
    fn schema() -> S {
        S::Ptr(PtrKind::Cow, Box::new(seq_schema::<u32>(SeqKind::Vec)))
    }
    fn to_model(&self) -> V {
        u32::seq_to_model(self.iter(), self.len())
    }
    fn from_model(v: &V) -> Self {
        Cow::Owned(u32::seq_from_model(v))
    }
    fn heap_payload(&self) -> usize {
        self.len() * 4
    }
}

impl Modelled for bytes::Bytes {
    fn schema() -> S {
        S::Bytes
    }
    fn to_model(&self) -> V {
        V::Blob(self.to_vec())
    }
    fn from_model(v: &V) -> Self {
        bytes::Bytes::from(v.as_blob().to_vec())
    }
    fn heap_payload(&self) -> usize {
        self.len()
    }
}

impl<T: Modelled, const N: usize> Modelled for [T; N] {
    const EMPTY: bool = N == 0 || T::EMPTY;
    fn schema() -> S {
        S::Array(N, Box::new(T::schema()))
    }
    fn to_model(&self) -> V {
        T::seq_to_model(self.iter(), N)
    }
    fn from_model(v: &V) -> Self {
        let items = T::seq_from_model(v);
        match <[T; N]>::try_from(items) {
            Ok(a) => a,
            Err(_) => panic!("modelled: array length"),
        }
    }
    fn heap_payload(&self) -> usize {
        self.iter().map(|x| x.heap_payload()).sum()
    }
}

impl<T: Modelled, L: generic_array::ArrayLength<T> + 'static> Modelled for generic_array::GenericArray<T, L> {
    const EMPTY: bool = T::EMPTY;
    fn schema() -> S {
        S::GArray(L::to_usize(), Box::new(T::schema()))
    }
    fn to_model(&self) -> V {
        T::seq_to_model(self.iter(), L::to_usize())
    }
    fn from_model(v: &V) -> Self {
        generic_array::GenericArray::from_exact_iter(T::seq_from_model(v)).expect("modelled: generic array length")
    }
    fn heap_payload(&self) -> usize {
        self.iter().map(|x| x.heap_payload()).sum()
    }
}

macro_rules! impl_ptr {
    ($($p:ident, $k:expr);*) => {$(
        impl<T: Modelled> Modelled for $p<T> {
            const EMPTY: bool = T::EMPTY;
            fn schema() -> S { S::Ptr($k, Box::new(T::schema())) }
            fn to_model(&self) -> V { (**self).to_model() }
            fn from_model(v: &V) -> Self { $p::new(T::from_model(v)) }
            fn heap_payload(&self) -> usize { size_of::<T>() + (**self).heap_payload() }
        }
    )*}
}
impl_ptr!(Box, PtrKind::Box; Rc, PtrKind::Rc; Arc, PtrKind::Arc);

pub trait OrderName: BitOrder + 'static {
    const MSB: bool;
}
impl OrderName for Lsb0 {
    const MSB: bool = false;
}
impl OrderName for Msb0 {
    const MSB: bool = true;
}

/// Builds the bit vector in a deliberately "used" state (a pure function of the bits): a
/// non-zero head offset inside the first storage element (len % 7 bits) and set dead bits behind
/// the end.  The logical content is exactly `bits`; the encoding must not depend on the rest.
pub fn dirty_bitvec<T: BitStore, O: BitOrder>(bits: &[bool]) -> BitVec<T, O> {
    let head = bits.len() % 7;
    let mut pre: BitVec<T, O> = BitVec::repeat(true, head);
    pre.extend(bits.iter().copied());
    let mut v = pre.split_off(head);
    // dirty the dead bits behind the end
    let extra = 1 + bits.len() % 5;
    for _ in 0..extra {
        v.push(true);
    }
    v.truncate(bits.len());
    v
}

impl<T: BitStore + 'static, O: OrderName> Modelled for BitVec<T, O> {
    fn schema() -> S {
        S::Bits(size_of::<T>() as u8, O::MSB)
    }
    fn to_model(&self) -> V {
        V::Bits(self.iter().by_vals().collect())
    }
    fn from_model(v: &V) -> Self {
        match v {
            V::Bits(b) => dirty_bitvec::<T, O>(b),
            _ => panic!("modelled: bits"),
        }
    }
    fn heap_payload(&self) -> usize {
        (self.len() + 8 * size_of::<T>() - 1) / (8 * size_of::<T>()) * size_of::<T>()
    }
}

impl<T: BitStore + 'static, O: OrderName> Modelled for BitBox<T, O> {
    fn schema() -> S {
        S::Bits(size_of::<T>() as u8, O::MSB)
    }
    fn to_model(&self) -> V {
        V::Bits(self.iter().by_vals().collect())
    }
    fn from_model(v: &V) -> Self {
        BitVec::<T, O>::from_model(v).into_boxed_bitslice()
    }
    fn heap_payload(&self) -> usize {
        (self.len() + 8 * size_of::<T>() - 1) / (8 * size_of::<T>()) * size_of::<T>()
    }
}
