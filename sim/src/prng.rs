//! splitmix64 -> xoshiro256**. The only source of randomness in the simulator.
//! Plans are generated from it; execution never touches it.

#[derive(Clone)]
pub struct Rng {
    s: [u64; 4],
}

pub fn splitmix(x: &mut u64) -> u64 {
    *x = x.wrapping_add(0x9E37_79B9_7F4A_7C15);
    let mut z = *x;
    z = (z ^ (z >> 30)).wrapping_mul(0xBF58_476D_1CE4_E5B9);
    z = (z ^ (z >> 27)).wrapping_mul(0x94D0_49BB_1331_11EB);
    z ^ (z >> 31)
}

/// FNV-1a over a string, used to derive per-scenario streams.
pub fn fnv(s: &[u8]) -> u64 {
    let mut h: u64 = 0xcbf2_9ce4_8422_2325;
    for b in s {
        h ^= *b as u64;
        h = h.wrapping_mul(0x0000_0100_0000_01B3);
    }
    h
}

impl Rng {
    pub fn new(seed: u64) -> Rng {
        let mut x = seed;
        let s = [splitmix(&mut x), splitmix(&mut x), splitmix(&mut x), splitmix(&mut x)];
        Rng { s }
    }

    /// Stream for case `idx` of scenario `scn` under `seed`: independent of worker layout.
    pub fn for_case(seed: u64, scn: &str, idx: u64) -> Rng {
        let mut x = seed ^ fnv(scn.as_bytes()).rotate_left(17);
        let a = splitmix(&mut x);
        let mut y = a ^ idx.wrapping_mul(0xD6E8_FEB8_6659_FD93);
        Rng::new(splitmix(&mut y))
    }

    pub fn next(&mut self) -> u64 {
        let r = self.s[1].wrapping_mul(5).rotate_left(7).wrapping_mul(9);
        let t = self.s[1] << 17;
        self.s[2] ^= self.s[0];
        self.s[3] ^= self.s[1];
        self.s[1] ^= self.s[2];
        self.s[0] ^= self.s[3];
        self.s[2] ^= t;
        self.s[3] = self.s[3].rotate_left(45);
        r
    }

    pub fn next128(&mut self) -> u128 {
        ((self.next() as u128) << 64) | self.next() as u128
    }

    /// Uniform in 0..n (n > 0).
    pub fn below(&mut self, n: u64) -> u64 {
        debug_assert!(n > 0);
        // Multiply-shift; bias is irrelevant here.
        ((self.next() as u128 * n as u128) >> 64) as u64
    }

    pub fn usize_below(&mut self, n: usize) -> usize {
        self.below(n as u64) as usize
    }

    /// Uniform in lo..=hi.
    pub fn range(&mut self, lo: u64, hi: u64) -> u64 {
        lo + self.below(hi - lo + 1)
    }

    /// True with probability num/den.
    pub fn chance(&mut self, num: u64, den: u64) -> bool {
        self.below(den) < num
    }

    pub fn pick<'a, T>(&mut self, xs: &'a [T]) -> &'a T {
        &xs[self.usize_below(xs.len())]
    }

    pub fn byte(&mut self) -> u8 {
        self.next() as u8
    }
}
