//! Simulated endpoints behind the library's seams: Input / io::Read sources, Output / io::Write
//! sinks, run-time composed wrapper stacks.  Everything here is driven by explicit plan data;
//! nothing draws random numbers or reads a clock.

use crate::plan::{Base, Fault, Layer, SinkSpec, SourceSpec};
use parity_scale_codec::{CountedInput, Decode, DecodeLimit, Error, Input, MemTrackingInput, Output};
use std::cell::RefCell;
use std::io;

// ------------------------------------------------------------------------------------------
// Trace

#[derive(Clone, Copy, Debug, PartialEq, Eq)]
#[repr(u8)]
pub enum EvK {
    Read = 1,
    ReadFail,
    ReadByte,
    ReadByteFail,
    RemLen,
    RemLenFail,
    Descend,
    DescendFail,
    Ascend,
    AllocHook,
    AllocHookFail,
    IoRead,
    IoEintr,
    IoErr,
    IoEof,
    Write,
    PushByte,
    IoWrite,
    IoWriteEintr,
    DecodeBytes,
    Panic,
}

pub const FIRED_KINDS: [&str; 14] = [
    "short_read",
    "eintr_read",
    "io_err",
    "eof",
    "read_err",
    "read_err_partial",
    "remaining_len_err",
    "descend_err",
    "alloc_hook_err",
    "input_panic",
    "short_write",
    "eintr_write",
    "unknown_len",
    "read_byte_default",
];

#[derive(Clone, Debug)]
pub struct Trace {
    pub events: u64,
    pub digest: u64,
    /// Shape signature: run-length collapsed sequence of (kind, size bucket).
    pub sig: u64,
    last_sig_item: u32,
    pub log: Vec<(EvK, u32)>,
    pub fired: [u32; 14],
    /// Bytes handed to the decoder by successful read / read_byte calls (top of the base).
    pub delivered: u64,
    pub max_read: u32,
}

fn bucket(n: usize) -> u32 {
    if n <= 2 {
        n as u32
    } else {
        2 + (usize::BITS - (n - 1).leading_zeros())
    }
}

impl Trace {
    pub fn new() -> Trace {
        Trace {
            events: 0,
            digest: 0xcbf2_9ce4_8422_2325,
            sig: 0x1234_5678_9abc_def1,
            last_sig_item: u32::MAX,
            log: Vec::with_capacity(40),
            fired: [0; 14],
            delivered: 0,
            max_read: 0,
        }
    }
    #[inline]
    pub fn ev(&mut self, k: EvK, n: usize) {
        self.events += 1;
        self.digest = (self.digest ^ (k as u64) ^ ((n as u64) << 8)).wrapping_mul(0x0000_0100_0000_01B3);
        let item = ((k as u32) << 8) | bucket(n);
        if item != self.last_sig_item {
            self.sig = (self.sig ^ item as u64).wrapping_mul(0x0000_0100_0000_01B3);
            self.last_sig_item = item;
        }
        if self.log.len() < 40 {
            self.log.push((k, n as u32));
        }
    }
    pub fn fire(&mut self, name: &str) {
        if let Some(i) = FIRED_KINDS.iter().position(|x| *x == name) {
            self.fired[i] += 1;
        }
    }
    pub fn merge(&mut self, o: &Trace) {
        self.events += o.events;
        self.digest = (self.digest ^ o.digest).wrapping_mul(0x0000_0100_0000_01B3);
        self.sig = (self.sig ^ o.sig).wrapping_mul(0x0000_0100_0000_01B3);
        for i in 0..self.fired.len() {
            self.fired[i] += o.fired[i];
        }
        self.delivered += o.delivered;
        self.max_read = self.max_read.max(o.max_read);
        for e in &o.log {
            if self.log.len() < 40 {
                self.log.push(*e);
            }
        }
    }
    pub fn any_error_fault_fired(&self) -> bool {
        // indices 2..=9 are error faults
        self.fired[2..=9].iter().any(|x| *x > 0)
    }
    pub fn log_strings(&self) -> Vec<String> {
        self.log.iter().map(|(k, n)| format!("{:?}({})", k, n)).collect()
    }
}

// ------------------------------------------------------------------------------------------
// Object-safe mirror of `Input`, forwarding *all* methods

pub trait DynInput {
    fn d_remaining_len(&mut self) -> Result<Option<usize>, Error>;
    fn d_read(&mut self, into: &mut [u8]) -> Result<(), Error>;
    fn d_read_byte(&mut self) -> Result<u8, Error>;
    fn d_descend_ref(&mut self) -> Result<(), Error>;
    fn d_ascend_ref(&mut self);
    fn d_on_before_alloc_mem(&mut self, size: usize) -> Result<(), Error>;
    fn d_decode_bytes(&mut self) -> Result<bytes::Bytes, Error>;
}

impl<I: Input> DynInput for I {
    fn d_remaining_len(&mut self) -> Result<Option<usize>, Error> {
        self.remaining_len()
    }
    fn d_read(&mut self, into: &mut [u8]) -> Result<(), Error> {
        self.read(into)
    }
    fn d_read_byte(&mut self) -> Result<u8, Error> {
        self.read_byte()
    }
    fn d_descend_ref(&mut self) -> Result<(), Error> {
        self.descend_ref()
    }
    fn d_ascend_ref(&mut self) {
        self.ascend_ref()
    }
    fn d_on_before_alloc_mem(&mut self, size: usize) -> Result<(), Error> {
        self.on_before_alloc_mem(size)
    }
    fn d_decode_bytes(&mut self) -> Result<bytes::Bytes, Error> {
        self.scale_internal_decode_bytes()
    }
}

pub struct DynAdapter<'a>(pub &'a mut dyn DynInput);

impl Input for DynAdapter<'_> {
    fn remaining_len(&mut self) -> Result<Option<usize>, Error> {
        self.0.d_remaining_len()
    }
    fn read(&mut self, into: &mut [u8]) -> Result<(), Error> {
        self.0.d_read(into)
    }
    fn read_byte(&mut self) -> Result<u8, Error> {
        self.0.d_read_byte()
    }
    fn descend_ref(&mut self) -> Result<(), Error> {
        self.0.d_descend_ref()
    }
    fn ascend_ref(&mut self) {
        self.0.d_ascend_ref()
    }
    fn on_before_alloc_mem(&mut self, size: usize) -> Result<(), Error> {
        self.0.d_on_before_alloc_mem(size)
    }
    fn scale_internal_decode_bytes(&mut self) -> Result<bytes::Bytes, Error> {
        self.0.d_decode_bytes()
    }
}

// ------------------------------------------------------------------------------------------
// SimInput: a custom `Input` with configurable behaviour and error faults

pub struct SimInput<'a> {
    pub data: &'a [u8],
    pub pos: usize,
    pub known_len: bool,
    pub own_read_byte: bool,
    pub faults: &'a [Fault],
    pub read_calls: u32,
    pub descend_calls: u32,
    pub alloc_calls: u32,
    pub all_calls: u32,
    pub depth: i64,
    pub min_depth: i64,
    pub trace: Trace,
}

impl<'a> SimInput<'a> {
    pub fn new(data: &'a [u8], spec: &'a SourceSpec) -> SimInput<'a> {
        SimInput {
            data,
            pos: 0,
            known_len: spec.known_len,
            own_read_byte: spec.own_read_byte,
            faults: &spec.faults,
            read_calls: 0,
            descend_calls: 0,
            alloc_calls: 0,
            all_calls: 0,
            depth: 0,
            min_depth: 0,
            trace: Trace::new(),
        }
    }

    fn call(&mut self) {
        self.all_calls += 1;
        for f in self.faults {
            if let Fault::InputPanicAt { call } = f {
                if *call == self.all_calls {
                    self.trace.ev(EvK::Panic, 0);
                    self.trace.fire("input_panic");
                    std::panic::panic_any(crate::InjectedPanic);
                }
            }
        }
    }

    fn read_fault(&mut self) -> Option<bool> {
        self.read_calls += 1;
        for f in self.faults {
            if let Fault::ReadErrAt { call, partial } = f {
                if *call == self.read_calls {
                    return Some(*partial);
                }
            }
        }
        None
    }

    fn do_read(&mut self, into: &mut [u8]) -> Result<(), Error> {
        if let Some(partial) = self.read_fault() {
            if partial {
                let k = (into.len() / 2).min(self.data.len() - self.pos);
                into[..k].copy_from_slice(&self.data[self.pos..self.pos + k]);
                self.pos += k;
                self.trace.fire("read_err_partial");
            } else {
                self.trace.fire("read_err");
            }
            self.trace.ev(EvK::ReadFail, into.len());
            return Err("sim: injected read error".into());
        }
        if into.len() > self.data.len() - self.pos {
            self.trace.ev(EvK::ReadFail, into.len());
            self.trace.fire("eof");
            return Err("sim: not enough data".into());
        }
        into.copy_from_slice(&self.data[self.pos..self.pos + into.len()]);
        self.pos += into.len();
        self.trace.delivered += into.len() as u64;
        self.trace.max_read = self.trace.max_read.max(into.len() as u32);
        Ok(())
    }
}

impl Input for SimInput<'_> {
    fn remaining_len(&mut self) -> Result<Option<usize>, Error> {
        self.call();
        if self.faults.iter().any(|f| matches!(f, Fault::RemLenErr)) {
            self.trace.ev(EvK::RemLenFail, 0);
            self.trace.fire("remaining_len_err");
            return Err("sim: injected remaining_len error".into());
        }
        self.trace.ev(EvK::RemLen, 0);
        if self.known_len {
            Ok(Some(self.data.len() - self.pos))
        } else {
            self.trace.fire("unknown_len");
            Ok(None)
        }
    }

    fn read(&mut self, into: &mut [u8]) -> Result<(), Error> {
        self.call();
        let r = self.do_read(into);
        if r.is_ok() {
            self.trace.ev(EvK::Read, into.len());
        }
        r
    }

    fn read_byte(&mut self) -> Result<u8, Error> {
        self.call();
        let mut b = [0u8];
        if !self.own_read_byte {
            self.trace.fire("read_byte_default");
        }
        let r = self.do_read(&mut b);
        match r {
            Ok(()) => {
                self.trace.ev(EvK::ReadByte, 1);
                Ok(b[0])
            },
            Err(e) => Err(e),
        }
    }

    fn descend_ref(&mut self) -> Result<(), Error> {
        self.call();
        self.descend_calls += 1;
        for f in self.faults {
            if let Fault::DescendErrAt { call } = f {
                if *call == self.descend_calls {
                    self.trace.ev(EvK::DescendFail, 0);
                    self.trace.fire("descend_err");
                    return Err("sim: injected descend error".into());
                }
            }
        }
        self.depth += 1;
        self.trace.ev(EvK::Descend, self.depth as usize);
        Ok(())
    }

    fn ascend_ref(&mut self) {
        self.call();
        self.depth -= 1;
        self.min_depth = self.min_depth.min(self.depth);
        self.trace.ev(EvK::Ascend, 0);
    }

    fn on_before_alloc_mem(&mut self, size: usize) -> Result<(), Error> {
        self.call();
        self.alloc_calls += 1;
        for f in self.faults {
            if let Fault::AllocErrAt { call } = f {
                if *call == self.alloc_calls {
                    self.trace.ev(EvK::AllocHookFail, size);
                    self.trace.fire("alloc_hook_err");
                    return Err("sim: injected alloc hook error".into());
                }
            }
        }
        self.trace.ev(EvK::AllocHook, size);
        Ok(())
    }
}

// ------------------------------------------------------------------------------------------
// SimRead: std::io::Read with short reads, EINTR, hard errors; EOF when data ends

pub struct SimRead<'a> {
    pub data: &'a [u8],
    pub pos: usize,
    pub chunks: &'a [u32],
    pub eintr: &'a [u32],
    pub faults: &'a [Fault],
    pub call: u32,
    pub trace: Trace,
}

impl<'a> SimRead<'a> {
    pub fn new(data: &'a [u8], spec: &'a SourceSpec) -> SimRead<'a> {
        SimRead { data, pos: 0, chunks: &spec.chunks, eintr: &spec.eintr, faults: &spec.faults, call: 0, trace: Trace::new() }
    }
}

fn io_kind(k: u8) -> io::ErrorKind {
    match k % 6 {
        0 => io::ErrorKind::WouldBlock,
        1 => io::ErrorKind::Other,
        2 => io::ErrorKind::ConnectionReset,
        3 => io::ErrorKind::TimedOut,
        4 => io::ErrorKind::BrokenPipe,
        _ => io::ErrorKind::InvalidData,
    }
}

impl io::Read for SimRead<'_> {
    fn read(&mut self, buf: &mut [u8]) -> io::Result<usize> {
        self.call += 1;
        for f in self.faults {
            match f {
                Fault::InputPanicAt { call } if *call == self.call => {
                    self.trace.ev(EvK::Panic, 0);
                    self.trace.fire("input_panic");
                    std::panic::panic_any(crate::InjectedPanic);
                },
                Fault::IoErrAt { call, kind } if *call == self.call => {
                    self.trace.ev(EvK::IoErr, buf.len());
                    self.trace.fire("io_err");
                    return Err(io::Error::new(io_kind(*kind), "sim: injected io error"));
                },
                _ => {},
            }
        }
        if self.eintr.contains(&self.call) {
            self.trace.ev(EvK::IoEintr, buf.len());
            self.trace.fire("eintr_read");
            return Err(io::Error::new(io::ErrorKind::Interrupted, "sim: EINTR"));
        }
        let rem = self.data.len() - self.pos;
        if rem == 0 && !buf.is_empty() {
            self.trace.ev(EvK::IoEof, buf.len());
            self.trace.fire("eof");
            return Ok(0);
        }
        let chunk = if self.chunks.is_empty() { usize::MAX } else { (self.chunks[(self.call as usize - 1) % self.chunks.len()] as usize).max(1) };
        let n = buf.len().min(rem).min(chunk);
        if n < buf.len() && n < rem || (n < buf.len() && chunk < buf.len()) {
            self.trace.fire("short_read");
        }
        buf[..n].copy_from_slice(&self.data[self.pos..self.pos + n]);
        self.pos += n;
        self.trace.delivered += n as u64;
        self.trace.max_read = self.trace.max_read.max(buf.len() as u32);
        self.trace.ev(EvK::IoRead, n);
        Ok(n)
    }
}

// ------------------------------------------------------------------------------------------
// Sinks

/// Custom `Output` that records every call separately.
pub struct ChunkSink {
    pub out: Vec<u8>,
    pub writes: u32,
    pub pushes: u32,
    pub trace: Trace,
}

impl ChunkSink {
    pub fn new() -> ChunkSink {
        ChunkSink { out: Vec::new(), writes: 0, pushes: 0, trace: Trace::new() }
    }
}

impl Output for ChunkSink {
    fn write(&mut self, bytes: &[u8]) {
        self.writes += 1;
        self.trace.ev(EvK::Write, bytes.len());
        self.out.extend_from_slice(bytes);
    }
    fn push_byte(&mut self, byte: u8) {
        self.pushes += 1;
        self.trace.ev(EvK::PushByte, 1);
        self.out.push(byte);
    }
}

/// Custom `Output` that only implements `write` (push_byte defaulted).
pub struct PlainSink {
    pub out: Vec<u8>,
    pub trace: Trace,
}

impl Output for PlainSink {
    fn write(&mut self, bytes: &[u8]) {
        self.trace.ev(EvK::Write, bytes.len());
        self.out.extend_from_slice(bytes);
    }
}

/// `io::Write` that accepts short writes and raises EINTR; never fails hard and never returns
/// `Ok(0)` (the library documents sinks as infallible).
pub struct SimWrite<'a> {
    pub out: Vec<u8>,
    pub chunks: &'a [u32],
    pub eintr: &'a [u32],
    pub call: u32,
    pub trace: Trace,
}

impl<'a> SimWrite<'a> {
    pub fn new(spec: &'a SinkSpec) -> SimWrite<'a> {
        SimWrite { out: Vec::new(), chunks: &spec.chunks, eintr: &spec.eintr, call: 0, trace: Trace::new() }
    }
}

impl io::Write for SimWrite<'_> {
    fn write(&mut self, buf: &[u8]) -> io::Result<usize> {
        self.call += 1;
        if self.eintr.contains(&self.call) {
            self.trace.ev(EvK::IoWriteEintr, buf.len());
            self.trace.fire("eintr_write");
            return Err(io::Error::new(io::ErrorKind::Interrupted, "sim: EINTR"));
        }
        if buf.is_empty() {
            return Ok(0);
        }
        let chunk = if self.chunks.is_empty() { usize::MAX } else { (self.chunks[(self.call as usize - 1) % self.chunks.len()] as usize).max(1) };
        let n = buf.len().min(chunk);
        if n < buf.len() {
            self.trace.fire("short_write");
        }
        self.out.extend_from_slice(&buf[..n]);
        self.trace.ev(EvK::IoWrite, n);
        Ok(n)
    }
    fn flush(&mut self) -> io::Result<()> {
        Ok(())
    }
}

// ------------------------------------------------------------------------------------------
// Run-time composed wrapper stacks (the *real* CountedInput / MemTrackingInput / depth tracking)

#[derive(Default, Clone, Debug)]
pub struct LayerReport {
    /// (layer index, count()) for each Counted layer
    pub counted: Vec<(usize, u64)>,
    /// (layer index, used_mem()) for each Mem layer
    pub used_mem: Vec<(usize, usize)>,
    /// remaining_len before / after the innermost decode, when probing is on
    pub probe: Option<(Option<usize>, Option<usize>)>,
}

struct LayerCtx {
    plan: Vec<Layer>,
    next: usize,
    probe: bool,
    report: LayerReport,
}

thread_local! {
    static LAYERS: RefCell<LayerCtx> = RefCell::new(LayerCtx { plan: Vec::new(), next: 0, probe: false, report: LayerReport::default() });
}

pub fn set_layers(plan: &[Layer], probe: bool) {
    LAYERS.with(|l| {
        let mut l = l.borrow_mut();
        l.plan.clear();
        l.plan.extend_from_slice(plan);
        l.next = 0;
        l.probe = probe;
        l.report = LayerReport::default();
        l.report.counted.reserve(4);
        l.report.used_mem.reserve(4);
    });
}

pub fn take_layer_report() -> LayerReport {
    LAYERS.with(|l| {
        let mut l = l.borrow_mut();
        l.plan.clear();
        l.next = 0;
        std::mem::take(&mut l.report)
    })
}

/// What to run at the bottom of the stack.
pub trait Bottom: Sized {
    fn run<I: Input>(input: &mut I) -> Result<Self, Error>;
}

/// Decodes `B` underneath the wrapper stack configured with `set_layers`.
pub struct Cont<B>(pub B);

impl<B: Bottom> Decode for Cont<B> {
    fn decode<I: Input>(input: &mut I) -> Result<Self, Error> {
        let (layer, idx, probe) = LAYERS.with(|l| {
            let mut l = l.borrow_mut();
            let i = l.next;
            let layer = l.plan.get(i).cloned();
            l.next += 1;
            (layer, i, l.probe)
        });
        // Erase the concrete input type so that the set of instantiations stays finite.
        let dynin: &mut dyn DynInput = input;
        let mut a = DynAdapter(dynin);
        match layer {
            None => {
                if probe {
                    let before = a.remaining_len().ok().flatten();
                    let r = B::run(&mut a);
                    let after = a.remaining_len().ok().flatten();
                    LAYERS.with(|l| l.borrow_mut().report.probe = Some((before, after)));
                    r.map(Cont)
                } else {
                    B::run(&mut a).map(Cont)
                }
            },
            Some(Layer::Counted) => {
                let mut c = CountedInput::new(&mut a);
                let r = Cont::<B>::decode(&mut c);
                let n = c.count();
                LAYERS.with(|l| l.borrow_mut().report.counted.push((idx, n)));
                r
            },
            Some(Layer::Mem(limit)) => {
                let mut m = MemTrackingInput::new(&mut a, limit as usize);
                let r = Cont::<B>::decode(&mut m);
                let n = m.used_mem();
                LAYERS.with(|l| l.borrow_mut().report.used_mem.push((idx, n)));
                r
            },
            Some(Layer::Depth(limit)) => <Cont<B> as DecodeLimit>::decode_with_depth_limit(limit, &mut a),
        }
    }
}

pub struct DecodeOf<T>(pub T);
impl<T: Decode> Bottom for DecodeOf<T> {
    fn run<I: Input>(input: &mut I) -> Result<Self, Error> {
        T::decode(input).map(DecodeOf)
    }
}

/// Decodes T twice from the same input (first outcome discarded).
pub struct TwiceOf<T>(pub T);
impl<T: Decode> Bottom for TwiceOf<T> {
    fn run<I: Input>(input: &mut I) -> Result<Self, Error> {
        let _ = T::decode(input);
        T::decode(input).map(TwiceOf)
    }
}

pub struct SkipOf<T>(pub std::marker::PhantomData<T>);
impl<T: Decode> Bottom for SkipOf<T> {
    fn run<I: Input>(input: &mut I) -> Result<Self, Error> {
        T::skip(input).map(|_| SkipOf(std::marker::PhantomData))
    }
}

// ------------------------------------------------------------------------------------------
// Running something over a source described by a SourceSpec

pub struct SourceReport {
    /// Bytes taken from the base by the time the closure returned.
    pub taken: usize,
    pub trace: Trace,
    pub layers: LayerReport,
    /// descend/ascend balance seen at the base (SimInput only): (final depth, minimum depth)
    pub depth_balance: Option<(i64, i64)>,
}

/// Effective data after EOF faults (truncation).
pub fn effective_len(spec: &SourceSpec, len: usize) -> usize {
    let mut n = len;
    for f in &spec.faults {
        if let Fault::EofAt { byte } = f {
            n = n.min(*byte as usize);
        }
    }
    n
}

/// The base input of a run, built from a SourceSpec.  Layers are applied by the caller
/// through `Cont`.  `Base::FromBytes` has no stream form (see `SubjectOps::decode`).
pub enum BaseInput<'a> {
    Slice(&'a [u8], usize),
    Cursor(parity_scale_codec::IoReader<io::Cursor<&'a [u8]>>),
    SimRead(parity_scale_codec::IoReader<SimRead<'a>>),
    SimInput(SimInput<'a>),
}

impl<'a> BaseInput<'a> {
    pub fn new(spec: &'a SourceSpec, data: &'a [u8]) -> BaseInput<'a> {
        let n = effective_len(spec, data.len());
        let data = &data[..n];
        match spec.base {
            Base::Slice | Base::FromBytes => BaseInput::Slice(data, data.len()),
            Base::Cursor => BaseInput::Cursor(parity_scale_codec::IoReader(io::Cursor::new(data))),
            Base::SimRead => BaseInput::SimRead(parity_scale_codec::IoReader(SimRead::new(data, spec))),
            Base::SimInput => BaseInput::SimInput(SimInput::new(data, spec)),
        }
    }
    pub fn as_dyn(&mut self) -> &mut dyn DynInput {
        match self {
            BaseInput::Slice(s, _) => s,
            BaseInput::Cursor(c) => c,
            BaseInput::SimRead(r) => r,
            BaseInput::SimInput(i) => i,
        }
    }
    /// Bytes taken from the base so far.
    pub fn taken(&self) -> usize {
        match self {
            BaseInput::Slice(s, n) => n - s.len(),
            BaseInput::Cursor(c) => c.0.position() as usize,
            BaseInput::SimRead(r) => r.0.pos,
            BaseInput::SimInput(i) => i.pos,
        }
    }
    pub fn finish(self) -> SourceReport {
        let taken = self.taken();
        match self {
            BaseInput::Slice(..) | BaseInput::Cursor(..) => {
                let mut t = Trace::new();
                t.delivered = taken as u64;
                SourceReport { taken, trace: t, layers: LayerReport::default(), depth_balance: None }
            },
            BaseInput::SimRead(r) => SourceReport { taken, trace: r.0.trace, layers: LayerReport::default(), depth_balance: None },
            BaseInput::SimInput(i) => {
                let bal = (i.depth, i.min_depth);
                SourceReport { taken, trace: i.trace, layers: LayerReport::default(), depth_balance: Some(bal) }
            },
        }
    }
}

pub fn with_base<R>(spec: &SourceSpec, data: &[u8], f: impl FnOnce(&mut dyn DynInput) -> R) -> (R, SourceReport) {
    let mut b = BaseInput::new(spec, data);
    let r = f(b.as_dyn());
    (r, b.finish())
}
