//! Scenario trait, per-worker statistics, worker loop, generic plan minimiser.

use crate::plan::*;
use crate::seams::{Trace, FIRED_KINDS};
use serde::{Deserialize, Serialize};
use std::collections::{BTreeMap, BTreeSet};

#[derive(Clone, Copy, Debug, PartialEq, Eq)]
pub enum Tier {
    Quick,
    Thorough,
}

impl Tier {
    pub fn name(&self) -> &'static str {
        match self {
            Tier::Quick => "quick",
            Tier::Thorough => "thorough",
        }
    }
    pub fn parse(s: &str) -> Tier {
        if s == "thorough" {
            Tier::Thorough
        } else {
            Tier::Quick
        }
    }
}

#[derive(Clone, Debug, PartialEq, Eq, Serialize, Deserialize)]
pub struct Violation {
    pub class: String,
    pub detail: String,
}

pub type Verdict = Result<(), Violation>;

pub fn viol<T>(class: &str, detail: String) -> Result<T, Violation> {
    Err(Violation { class: class.to_string(), detail })
}

#[derive(Clone, Debug, Default, Serialize, Deserialize)]
pub struct Stats {
    pub evaluations: u64,
    /// distinct run signatures of non-trivial runs
    pub sigs: BTreeSet<u64>,
    pub nontrivial: u64,
    pub steps: u64,
    pub fired: BTreeMap<String, u64>,
    pub probes: BTreeMap<String, u64>,
    pub samples: Vec<serde_json::Value>,
    pub sub_runs: u64,
    pub exhaustive_parts: BTreeMap<String, u64>,
    pub skipped: BTreeMap<String, u64>,
}

impl Stats {
    pub fn probe(&mut self, name: &str) {
        *self.probes.entry(name.to_string()).or_insert(0) += 1;
    }
    pub fn probe_n(&mut self, name: &str, n: u64) {
        *self.probes.entry(name.to_string()).or_insert(0) += n;
    }
    pub fn skip(&mut self, name: &str) {
        *self.skipped.entry(name.to_string()).or_insert(0) += 1;
    }
    pub fn fire(&mut self, name: &str) {
        *self.fired.entry(name.to_string()).or_insert(0) += 1;
    }
    /// Records one executed sub-run: its seam trace and a signature salt (subject, stack,
    /// outcome class...).  Non-trivial = a fault fired or more than one seam call occurred.
    pub fn note(&mut self, salt: u64, trace: &Trace, extra_nontrivial: bool) {
        self.sub_runs += 1;
        self.steps += trace.events;
        let mut any = false;
        for (i, n) in trace.fired.iter().enumerate() {
            if *n > 0 {
                *self.fired.entry(FIRED_KINDS[i].to_string()).or_insert(0) += *n as u64;
                any = true;
            }
        }
        if any || trace.events > 1 || extra_nontrivial {
            self.nontrivial += 1;
            let mut h = salt ^ trace.sig.rotate_left(13);
            for (i, n) in trace.fired.iter().enumerate() {
                if *n > 0 {
                    h = (h ^ (i as u64 + 1)).wrapping_mul(0x0000_0100_0000_01B3);
                }
            }
            if self.sigs.len() < 300_000 {
                self.sigs.insert(h);
            }
        }
    }
    pub fn sample(&mut self, v: impl FnOnce() -> serde_json::Value) {
        if self.samples.len() < 3 {
            self.samples.push(v());
        }
    }
    pub fn merge(&mut self, o: Stats) {
        self.evaluations += o.evaluations;
        self.sigs.extend(o.sigs);
        self.nontrivial += o.nontrivial;
        self.steps += o.steps;
        self.sub_runs += o.sub_runs;
        for (k, v) in o.fired {
            *self.fired.entry(k).or_insert(0) += v;
        }
        for (k, v) in o.probes {
            *self.probes.entry(k).or_insert(0) += v;
        }
        for (k, v) in o.exhaustive_parts {
            *self.exhaustive_parts.entry(k).or_insert(0) += v;
        }
        for (k, v) in o.skipped {
            *self.skipped.entry(k).or_insert(0) += v;
        }
        for s in o.samples {
            if self.samples.len() < 6 {
                self.samples.push(s);
            }
        }
    }
}

pub fn salt(parts: &[&str]) -> u64 {
    let mut h: u64 = 0xcbf2_9ce4_8422_2325;
    for p in parts {
        for b in p.as_bytes() {
            h = (h ^ *b as u64).wrapping_mul(0x0000_0100_0000_01B3);
        }
        h = (h ^ 0xff).wrapping_mul(0x0000_0100_0000_01B3);
    }
    h
}

pub trait Scenario: Sync {
    fn name(&self) -> &'static str;
    fn property(&self) -> &'static str;
    fn level(&self) -> &'static str;
    fn rule(&self) -> &'static str;
    fn cases(&self, tier: Tier) -> u64;
    /// Pure function of (seed, idx, tier).
    fn gen(&self, seed: u64, idx: u64, tier: Tier) -> Plan;
    /// Pure function of the plan.  Must not draw random numbers or read clocks.
    fn run(&self, plan: &Plan, st: &mut Stats) -> Verdict;
    /// Cases that must run in their own supervised process (may abort by design).
    fn isolated(&self, _plan: &Plan) -> bool {
        false
    }
    /// Whether the complete enumeration parts make the whole run exhaustive (rarely).
    fn exhaustive(&self) -> bool {
        false
    }
    fn assumptions(&self) -> Vec<String> {
        vec![]
    }
    /// Optional narrowing of a failing plan to the sub-run that failed (tested by the driver
    /// before the generic minimiser runs).
    fn narrow(&self, _plan: &Plan, _v: &Violation) -> Option<Plan> {
        None
    }
    /// Finding key components for KNOWN_FINDINGS matching.
    fn finding_key(&self, plan: &Plan, v: &Violation) -> String {
        format!("subject={} class={}", plan.subject, v.class)
    }
}

pub struct InjectedPanicMarker;

/// Executes a plan with panics caught.  A panic that is not an injected one is a violation of
/// whichever property forbids it; scenarios that inject panics catch those themselves.
pub fn run_caught(sc: &dyn Scenario, plan: &Plan, st: &mut Stats) -> Verdict {
    let r = std::panic::catch_unwind(std::panic::AssertUnwindSafe(|| sc.run(plan, st)));
    match r {
        Ok(v) => v,
        Err(p) => {
            let _ = crate::seams::take_layer_report();
            let msg = if let Some(s) = p.downcast_ref::<&str>() {
                s.to_string()
            } else if let Some(s) = p.downcast_ref::<String>() {
                s.clone()
            } else if p.downcast_ref::<crate::InjectedPanic>().is_some() {
                "injected panic escaped the scenario".to_string()
            } else {
                "non-string panic".to_string()
            };
            if msg.starts_with("model:") || msg.starts_with("modelled:") || msg.starts_with("harness:") {
                // Harness self-check failure: never a property verdict.
                eprintln!("HARNESS-ERROR scenario={} plan={}", sc.name(), serde_json::to_string(plan).unwrap_or_default());
                eprintln!("HARNESS-ERROR panic: {}", msg);
                std::process::exit(2);
            }
            let short: String = msg.chars().take(200).collect();
            viol("panic", short)
        },
    }
}

// ------------------------------------------------------------------------------------------
// Generic plan minimiser: greedy delta debugging over the plan, keeping the violation class.

pub fn shrink_candidates(plan: &Plan) -> Vec<Plan> {
    let mut out = Vec::new();
    let cat = crate::subjects::catalogue();
    // 1. simplify sources
    for (i, s) in plan.sources.iter().enumerate() {
        if !s.faults.is_empty() {
            for k in 0..s.faults.len() {
                let mut p = plan.clone();
                p.sources[i].faults.remove(k);
                out.push(p);
            }
        }
        if !s.eintr.is_empty() {
            let mut p = plan.clone();
            p.sources[i].eintr.clear();
            out.push(p);
        }
        if !s.chunks.is_empty() {
            let mut p = plan.clone();
            p.sources[i].chunks.clear();
            out.push(p);
            if s.chunks.len() > 1 {
                let mut p = plan.clone();
                p.sources[i].chunks.truncate(1);
                out.push(p);
            }
        }
        for k in 0..s.layers.len() {
            let mut p = plan.clone();
            p.sources[i].layers.remove(k);
            out.push(p);
        }
        if s.base != Base::Slice {
            let mut p = plan.clone();
            p.sources[i].base = Base::Slice;
            p.sources[i].chunks.clear();
            p.sources[i].eintr.clear();
            out.push(p);
        }
        if !s.known_len || !s.own_read_byte {
            let mut p = plan.clone();
            p.sources[i].known_len = true;
            p.sources[i].own_read_byte = true;
            out.push(p);
        }
    }
    if plan.sources.len() > 2 {
        for k in 1..plan.sources.len() {
            let mut p = plan.clone();
            p.sources.remove(k);
            out.push(p);
        }
    }
    // 2. sinks
    for (i, s) in plan.sinks.iter().enumerate() {
        if !s.chunks.is_empty() || !s.eintr.is_empty() {
            let mut p = plan.clone();
            p.sinks[i].chunks.clear();
            p.sinks[i].eintr.clear();
            out.push(p);
        }
    }
    if plan.sinks.len() > 2 {
        for k in 1..plan.sinks.len() {
            let mut p = plan.clone();
            p.sinks.remove(k);
            out.push(p);
        }
    }
    // 3. messages
    if plan.msgs.len() > 1 {
        for k in 0..plan.msgs.len() {
            let mut p = plan.clone();
            p.msgs.remove(k);
            out.push(p);
        }
    }
    for (i, m) in plan.msgs.iter().enumerate() {
        let sch = &cat.get(&m.subject).schema;
        for c in crate::model::shrink_value(sch, &m.value).into_iter().take(12) {
            let mut p = plan.clone();
            p.msgs[i].value = c;
            out.push(p);
        }
        if m.sink.kind != SinkKind::Owned {
            let mut p = plan.clone();
            p.msgs[i].sink = SinkSpec::owned();
            out.push(p);
        }
    }
    // 4. suffix, mutations
    if !plan.suffix.0.is_empty() {
        let mut p = plan.clone();
        p.suffix.0.clear();
        out.push(p);
    }
    for k in 0..plan.muts.len() {
        let mut p = plan.clone();
        p.muts.remove(k);
        out.push(p);
    }
    // 5. value
    if let Some(v) = &plan.value {
        if !plan.subject.is_empty() {
            let sch = &cat.get(&plan.subject).schema;
            for c in crate::model::shrink_value(sch, v).into_iter().take(24) {
                let mut p = plan.clone();
                p.value = Some(c);
                out.push(p);
            }
        }
    }
    // 6. raw bytes
    if let Some(b) = &plan.bytes {
        let b = &b.0;
        if !b.is_empty() {
            for cut in [b.len() / 2, b.len() - 1] {
                let mut p = plan.clone();
                p.bytes = Some(HexBytes(b[..cut].to_vec()));
                out.push(p);
            }
            if b.len() <= 64 {
                for i in 0..b.len() {
                    if b[i] != 0 {
                        let mut p = plan.clone();
                        let mut nb = b.clone();
                        nb[i] = 0;
                        p.bytes = Some(HexBytes(nb));
                        out.push(p);
                    }
                    let mut p = plan.clone();
                    let mut nb = b.clone();
                    nb.remove(i);
                    p.bytes = Some(HexBytes(nb));
                    out.push(p);
                }
            } else {
                // zero the tail half
                let mut nb = b.clone();
                let h = nb.len() / 2;
                if nb[h..].iter().any(|x| *x != 0) {
                    for x in nb[h..].iter_mut() {
                        *x = 0;
                    }
                    let mut p = plan.clone();
                    p.bytes = Some(HexBytes(nb));
                    out.push(p);
                }
            }
        }
    }
    // 7. ops
    if !plan.ops.is_empty() {
        if plan.ops.len() > 2 {
            let mut p = plan.clone();
            p.ops.truncate(plan.ops.len() / 2);
            out.push(p);
        }
        for k in (0..plan.ops.len()).rev() {
            let mut p = plan.clone();
            p.ops.remove(k);
            out.push(p);
        }
        for (k, op) in plan.ops.iter().enumerate() {
            if op.a > 0 {
                let mut p = plan.clone();
                p.ops[k].a = op.a / 2;
                out.push(p);
                let mut p = plan.clone();
                p.ops[k].a = op.a - 1;
                out.push(p);
            }
            if op.b > 0 {
                let mut p = plan.clone();
                p.ops[k].b = op.b / 2;
                out.push(p);
            }
        }
    }
    // 8. integer parameters towards zero
    for (k, v) in &plan.p {
        if k.starts_with("fix_") {
            continue;
        }
        if *v > 0 {
            let mut p = plan.clone();
            p.p.insert(k.clone(), v / 2);
            out.push(p);
            let mut p = plan.clone();
            p.p.insert(k.clone(), v - 1);
            out.push(p);
        }
    }
    out
}

/// Greedy minimisation. `test(plan)` returns the violation class if the plan still fails.
pub fn minimise(plan: &Plan, class: &str, test: &mut dyn FnMut(&Plan) -> Option<String>, max_tests: u32) -> (Plan, u32) {
    let mut cur = plan.clone();
    let mut steps = 0u32;
    let mut tests = 0u32;
    loop {
        let mut progressed = false;
        for cand in shrink_candidates(&cur) {
            if tests >= max_tests {
                return (cur, steps);
            }
            if cand == cur {
                continue;
            }
            tests += 1;
            if test(&cand).as_deref() == Some(class) {
                cur = cand;
                steps += 1;
                progressed = true;
                break;
            }
        }
        if !progressed {
            return (cur, steps);
        }
    }
}

// ------------------------------------------------------------------------------------------
// Worker

#[derive(Clone, Debug, Serialize, Deserialize)]
pub struct FoundViolation {
    pub case: u64,
    pub class: String,
    pub detail: String,
    pub key: String,
    pub plan: Plan,
}

#[derive(Clone, Debug, Default, Serialize, Deserialize)]
pub struct WorkerOut {
    pub stats: Stats,
    pub violations: Vec<FoundViolation>,
    pub isolated: Vec<u64>,
    pub digest: u64,
    pub done: bool,
}

/// Runs cases idx = w, w+n, w+2n, ... < total.  In careful mode prints "B <idx>" before each case.
pub fn worker_loop(sc: &dyn Scenario, seed: u64, tier: Tier, w: u64, n: u64, careful: bool, only: Option<u64>) -> WorkerOut {
    let total = sc.cases(tier);
    let mut out = WorkerOut::default();
    let mut idx = w;
    let mut digest: u64 = 0xcbf2_9ce4_8422_2325;
    let slow_ms: Option<u64> = std::env::var("SCALESIM_SLOW_MS").ok().and_then(|s| s.parse().ok());
    while idx < total {
        if let Some(o) = only {
            if idx != o {
                idx += n;
                continue;
            }
        }
        let plan = sc.gen(seed, idx, tier);
        if sc.isolated(&plan) && only.is_none() {
            out.isolated.push(idx);
            idx += n;
            continue;
        }
        if careful {
            // allocation-free marker (the heap history must stay identical to the normal run, so
            // that crashes which depend on heap layout reproduce): "B <idx>\n" via write(2)
            let mut buf = [0u8; 32];
            buf[0] = b'B';
            buf[1] = b' ';
            let mut digits = [0u8; 20];
            let mut k = 0;
            let mut x = idx;
            loop {
                digits[k] = b'0' + (x % 10) as u8;
                k += 1;
                x /= 10;
                if x == 0 {
                    break;
                }
            }
            let mut pos = 2;
            while k > 0 {
                k -= 1;
                buf[pos] = digits[k];
                pos += 1;
            }
            buf[pos] = b'\n';
            extern "C" {
                fn write(fd: i32, buf: *const u8, n: usize) -> isize;
            }
            unsafe {
                write(1, buf.as_ptr(), pos + 1);
            }
        }
        out.stats.evaluations += 1;
        let steps_before = out.stats.steps;
        // Diagnostics only (never influences execution): report slow cases when asked to.
        let t0 = if slow_ms.is_some() { Some(std::time::Instant::now()) } else { None };
        let v = run_caught(sc, &plan, &mut out.stats);
        if let (Some(t0), Some(ms)) = (t0, slow_ms) {
            let el = t0.elapsed().as_millis() as u64;
            if el >= ms {
                eprintln!("SLOW case {} {} ms subject={} bytes={:?} src={:?}", idx, el, plan.subject, plan.bytes.as_ref().map(|b| b.0.len()), plan.sources.first().map(|s| s.describe()));
            }
        }
        digest = (digest ^ idx ^ (out.stats.steps - steps_before).rotate_left(20) ^ if v.is_ok() { 0 } else { 0xdead }).wrapping_mul(0x0000_0100_0000_01B3);
        if let Err(v) = v {
            if out.violations.len() < 40 {
                let key = sc.finding_key(&plan, &v);
                out.violations.push(FoundViolation { case: idx, class: v.class, detail: v.detail, key, plan });
            }
        }
        idx += n;
    }
    out.digest = digest;
    out.done = true;
    out
}
