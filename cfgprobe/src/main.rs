//! cfgprobe: built once per feature configuration of parity-scale-codec (C20).  Runs the same
//! seeded corpus of values and byte strings through encode / decode and prints one digest per
//! subject family over (bytes produced, accept/reject, decoded value fingerprint, consumed).
//! Error texts are excluded.  The probe itself always uses std; only the codec's features vary.

#[path = "../../sim/src/prng.rs"]
mod prng;

use parity_scale_codec::{Compact, Decode, Encode, Error, Input, Output};
use prng::Rng;
use std::collections::{BTreeMap, BTreeSet, BinaryHeap, LinkedList, VecDeque};
use std::rc::Rc;
use std::sync::Arc;

/// Custom Output (present in every configuration, unlike io::Write).
struct Sink(Vec<u8>);
impl Output for Sink {
    fn write(&mut self, bytes: &[u8]) {
        self.0.extend_from_slice(bytes);
    }
}

/// Custom Input with unknown remaining length.
struct Src<'a>(&'a [u8], usize);
impl Input for Src<'_> {
    fn remaining_len(&mut self) -> Result<Option<usize>, Error> {
        Ok(None)
    }
    fn read(&mut self, into: &mut [u8]) -> Result<(), Error> {
        if into.len() > self.0.len() - self.1 {
            return Err("eof".into());
        }
        into.copy_from_slice(&self.0[self.1..self.1 + into.len()]);
        self.1 += into.len();
        Ok(())
    }
}

trait G: Sized {
    fn g(r: &mut Rng, depth: u32) -> Self;
}

fn interesting(r: &mut Rng) -> u128 {
    match r.below(10) {
        0 => 0,
        1 => 1,
        2 => u128::MAX,
        3 => {
            let t = *r.pick(&[6u32, 14, 30, 32, 56, 64, 120]);
            (1u128 << t).wrapping_add(r.below(3) as u128).wrapping_sub(1)
        },
        4 => r.below(64) as u128,
        5 => r.range(64, 16384) as u128,
        _ => r.next128(),
    }
}

macro_rules! g_int {
    ($($t:ty),*) => {$( impl G for $t { fn g(r: &mut Rng, _d: u32) -> Self { interesting(r) as $t } } )*}
}
g_int!(u8, u16, u32, u64, u128, i8, i16, i32, i64, i128);
impl G for bool {
    fn g(r: &mut Rng, _d: u32) -> Self {
        r.chance(1, 2)
    }
}
impl G for f32 {
    fn g(r: &mut Rng, _d: u32) -> Self {
        f32::from_bits(r.next() as u32)
    }
}
impl G for f64 {
    fn g(r: &mut Rng, _d: u32) -> Self {
        f64::from_bits(r.next())
    }
}
impl G for () {
    fn g(_: &mut Rng, _d: u32) -> Self {}
}
impl<T: G> G for Compact<T> {
    fn g(r: &mut Rng, d: u32) -> Self {
        Compact(T::g(r, d))
    }
}
impl<T: G> G for Option<T> {
    fn g(r: &mut Rng, d: u32) -> Self {
        if r.chance(1, 3) {
            None
        } else {
            Some(T::g(r, d))
        }
    }
}
impl<T: G, E: G> G for Result<T, E> {
    fn g(r: &mut Rng, d: u32) -> Self {
        if r.chance(1, 2) {
            Ok(T::g(r, d))
        } else {
            Err(E::g(r, d))
        }
    }
}
fn len(r: &mut Rng, d: u32) -> usize {
    if d > 1 {
        return r.below(3) as usize;
    }
    match r.below(8) {
        0 => 0,
        1 => 1,
        2 => *r.pick(&[63usize, 64, 65]),
        3 => r.range(100, 300) as usize,
        _ => r.below(8) as usize,
    }
}
impl<T: G> G for Vec<T> {
    fn g(r: &mut Rng, d: u32) -> Self {
        let n = len(r, d);
        (0..n).map(|_| T::g(r, d + 1)).collect()
    }
}
impl<T: G> G for VecDeque<T> {
    fn g(r: &mut Rng, d: u32) -> Self {
        let mut v: VecDeque<T> = Vec::<T>::g(r, d).into();
        if !v.is_empty() && r.chance(1, 2) {
            let k = r.usize_below(v.len());
            v.rotate_left(k);
        }
        v
    }
}
impl<T: G> G for LinkedList<T> {
    fn g(r: &mut Rng, d: u32) -> Self {
        Vec::<T>::g(r, d).into_iter().collect()
    }
}
impl<T: G + Ord> G for BinaryHeap<T> {
    fn g(r: &mut Rng, d: u32) -> Self {
        Vec::<T>::g(r, d).into()
    }
}
impl<T: G + Ord> G for BTreeSet<T> {
    fn g(r: &mut Rng, d: u32) -> Self {
        Vec::<T>::g(r, d).into_iter().collect()
    }
}
impl<K: G + Ord, V: G> G for BTreeMap<K, V> {
    fn g(r: &mut Rng, d: u32) -> Self {
        let n = len(r, d);
        (0..n).map(|_| (K::g(r, d + 1), V::g(r, d + 1))).collect()
    }
}
impl G for String {
    fn g(r: &mut Rng, d: u32) -> Self {
        let n = len(r, d);
        (0..n).map(|_| *r.pick(&['a', 'z', 'é', '中', '😀', '\0'])).collect()
    }
}
impl<T: G, const N: usize> G for [T; N] {
    fn g(r: &mut Rng, d: u32) -> Self {
        std::array::from_fn(|_| T::g(r, d + 1))
    }
}
macro_rules! g_tuple {
    ($(($($t:ident),+))*) => {$( impl<$($t: G),+> G for ($($t,)+) { fn g(r: &mut Rng, d: u32) -> Self { ($($t::g(r, d),)+) } } )*}
}
g_tuple! { (A) (A, B) (A, B, C) (A, B, C, D) }
impl<T: G> G for Box<T> {
    fn g(r: &mut Rng, d: u32) -> Self {
        Box::new(T::g(r, d))
    }
}
impl<T: G> G for Rc<T> {
    fn g(r: &mut Rng, d: u32) -> Self {
        Rc::new(T::g(r, d))
    }
}
impl<T: G> G for Arc<T> {
    fn g(r: &mut Rng, d: u32) -> Self {
        Arc::new(T::g(r, d))
    }
}
impl G for core::time::Duration {
    fn g(r: &mut Rng, _d: u32) -> Self {
        core::time::Duration::new(r.next(), r.below(1_000_000_000) as u32)
    }
}
impl G for core::num::NonZeroU16 {
    fn g(r: &mut Rng, _d: u32) -> Self {
        core::num::NonZeroU16::new(r.range(1, 65535) as u16).unwrap()
    }
}
impl G for parity_scale_codec::OptionBool {
    fn g(r: &mut Rng, _d: u32) -> Self {
        parity_scale_codec::OptionBool(<Option<bool>>::g(r, 0))
    }
}
impl<T: G> G for core::ops::Range<T> {
    fn g(r: &mut Rng, d: u32) -> Self {
        T::g(r, d)..T::g(r, d)
    }
}

/// Key whose ordering ignores part of what it encodes (ordered by `.0` only).
#[derive(Clone, Copy, Debug)]
pub struct PKey(pub u8, pub u8);
impl PartialEq for PKey {
    fn eq(&self, o: &Self) -> bool {
        self.0 == o.0
    }
}
impl Eq for PKey {}
impl PartialOrd for PKey {
    fn partial_cmp(&self, o: &Self) -> Option<core::cmp::Ordering> {
        Some(self.cmp(o))
    }
}
impl Ord for PKey {
    fn cmp(&self, o: &Self) -> core::cmp::Ordering {
        self.0.cmp(&o.0)
    }
}
impl Encode for PKey {
    fn encode_to<W: Output + ?Sized>(&self, dest: &mut W) {
        dest.push_byte(self.0);
        dest.push_byte(self.1);
    }
}
impl Decode for PKey {
    fn decode<I: Input>(input: &mut I) -> Result<Self, Error> {
        Ok(PKey(input.read_byte()? & 3, input.read_byte()?))
    }
}
impl G for PKey {
    fn g(r: &mut Rng, _d: u32) -> Self {
        PKey(r.below(4) as u8, r.byte())
    }
}

#[cfg(feature = "derive")]
mod derived {
    use super::*;
    use parity_scale_codec::{Decode, Encode};
    #[derive(Encode, Decode)]
    pub struct S1 {
        pub a: u32,
        #[codec(compact)]
        pub b: u64,
        #[codec(skip)]
        pub s: u16,
        pub c: Vec<u8>,
        pub d: Option<bool>,
    }
    impl G for S1 {
        fn g(r: &mut Rng, d: u32) -> Self {
            S1 { a: G::g(r, d), b: G::g(r, d), s: 0, c: G::g(r, d), d: G::g(r, d) }
        }
    }
    #[derive(Encode, Decode)]
    pub enum E1 {
        #[codec(index = 7)]
        A,
        B(u16, String),
        C {
            #[codec(compact)]
            x: u128,
        },
        #[codec(skip)]
        #[allow(dead_code)]
        Z(u8),
        #[codec(index = 200)]
        D,
    }
    impl G for E1 {
        fn g(r: &mut Rng, d: u32) -> Self {
            match r.below(4) {
                0 => E1::A,
                1 => E1::B(G::g(r, d), G::g(r, d)),
                2 => E1::C { x: G::g(r, d) },
                _ => E1::D,
            }
        }
    }
    #[derive(Encode, Decode)]
    #[repr(transparent)]
    pub struct N1(pub [u16; 5]);
    impl G for N1 {
        fn g(r: &mut Rng, d: u32) -> Self {
            N1(G::g(r, d))
        }
    }
}

#[cfg(feature = "bit-vec")]
mod bits {
    use super::*;
    use bitvec::prelude::*;
    impl<T: BitStore, O: BitOrder> G for BitVec<T, O> {
        fn g(r: &mut Rng, _d: u32) -> Self {
            let n = match r.below(5) {
                0 => 0,
                1 => r.below(20),
                _ => r.below(200),
            };
            (0..n).map(|_| r.chance(1, 2)).collect()
        }
    }
}

#[cfg(feature = "bytes")]
impl G for bytes::Bytes {
    fn g(r: &mut Rng, d: u32) -> Self {
        bytes::Bytes::from(Vec::<u8>::g(r, d))
    }
}

#[cfg(feature = "generic-array")]
impl<T: G, L: generic_array::ArrayLength<T>> G for generic_array::GenericArray<T, L> {
    fn g(r: &mut Rng, d: u32) -> Self {
        generic_array::GenericArray::from_exact_iter((0..L::to_usize()).map(|_| T::g(r, d + 1))).unwrap()
    }
}

fn fnv(h: &mut u64, b: &[u8]) {
    for x in b {
        *h = (*h ^ *x as u64).wrapping_mul(0x0000_0100_0000_01B3);
    }
    *h = (*h ^ 0xff).wrapping_mul(0x0000_0100_0000_01B3);
}

fn hex(b: &[u8]) -> String {
    b.iter().map(|x| format!("{:02x}", x)).collect()
}

/// Outcome line of decoding `bytes` as T from a slice and from a custom unknown-length input.
fn decode_line<T: Encode + Decode>(bytes: &[u8]) -> String {
    // a panic of the library under one configuration shows up as an outcome, not as a crash
    let part = |r: &Result<T, Error>, c: usize| match r {
        Ok(v) => format!("ok:{}:{}", c, hex(&v.encode())),
        // where the input stands after a failed decode is observable behaviour too
        Err(_) => format!("err@{}", c),
    };
    let a = std::panic::catch_unwind(|| {
        let mut s = bytes;
        let a = T::decode(&mut s);
        part(&a, bytes.len() - s.len())
    })
    .unwrap_or_else(|_| "panic".to_string());
    let b = std::panic::catch_unwind(|| {
        let mut src = Src(bytes, 0);
        let b = T::decode(&mut src);
        part(&b, src.1)
    })
    .unwrap_or_else(|_| "panic".to_string());
    // skip entry point, and the memory a tracking input is told about
    let c = std::panic::catch_unwind(|| {
        let mut s = bytes;
        match T::skip(&mut s) {
            Ok(()) => format!("skip:ok:{}", bytes.len() - s.len()),
            Err(_) => format!("skip:err@{}", bytes.len() - s.len()),
        }
    })
    .unwrap_or_else(|_| "skip:panic".to_string());
    let d = std::panic::catch_unwind(|| {
        let mut s = bytes;
        let mut m = parity_scale_codec::MemTrackingInput::new(&mut s, usize::MAX);
        let ok = T::decode(&mut m).is_ok();
        format!("mem:{}:{}", ok, m.used_mem())
    })
    .unwrap_or_else(|_| "mem:panic".to_string());
    format!("{}|{}|{}|{}", a, b, c, d)
}

fn items_for<T: G + Encode + Decode>(seed: u64, tname: &str, n: u64, only: Option<u64>, dl: fn(&[u8]) -> String, out: &mut dyn FnMut(u64, String)) {
    for i in 0..n {
        if let Some(o) = only {
            if o != i {
                continue;
            }
        }
        let mut r = Rng::for_case(seed, tname, i);
        let line = match i % 4 {
            0 | 1 => {
                // value -> bytes through two sinks, then decode of own encoding
                let v = T::g(&mut r, 0);
                let e = v.encode();
                let mut k = Sink(Vec::new());
                v.encode_to(&mut k);
                let sz = v.encoded_size();
                format!("enc:{}:{}:{} dec:{}", hex(&e), if k.0 == e { "same" } else { "SINKDIFF" }, sz, dl(&e))
            },
            2 => {
                // damaged encoding
                let v = T::g(&mut r, 0);
                let mut e = v.encode();
                for _ in 0..r.range(1, 3) {
                    match r.below(4) {
                        0 if !e.is_empty() => {
                            let p = r.usize_below(e.len());
                            e[p] ^= 1 << r.below(8);
                        },
                        1 if !e.is_empty() => {
                            let p = r.usize_below(e.len());
                            e.truncate(p);
                        },
                        2 => e.push(r.byte()),
                        _ => {
                            if !e.is_empty() {
                                let p = r.usize_below(e.len());
                                e[p] = *r.pick(&[0u8, 1, 2, 3, 0xff, 0xfc, 0x80]);
                            }
                        },
                    }
                }
                format!("bytes:{} dec:{}", hex(&e), dl(&e))
            },
            _ => {
                let n = r.below(24) as usize;
                let e: Vec<u8> = (0..n).map(|_| if r.chance(2, 3) { *r.pick(&[0u8, 1, 2, 3, 4, 8, 0xfc, 0xff, 5, 7, 0x80]) } else { r.byte() }).collect();
                format!("bytes:{} dec:{}", hex(&e), dl(&e))
            },
        };
        out(i, line);
    }
}

/// Byte buffers with the `bytes` integration on (decode_from_bytes into Bytes) or off (Vec<u8>
/// from a slice): same wire format, same accept/reject, same content.
#[cfg(feature = "bytes")]
type ByteBuf = bytes::Bytes;
#[cfg(not(feature = "bytes"))]
type ByteBuf = Vec<u8>;

fn bytebuf_line<T: Encode + Decode>(bytes: &[u8]) -> String {
    let part = |r: &Result<T, Error>| match r {
        Ok(v) => format!("ok:{}", hex(&v.encode())),
        Err(_) => "err".to_string(),
    };
    std::panic::catch_unwind(|| {
        #[cfg(feature = "bytes")]
        let r = parity_scale_codec::decode_from_bytes::<T>(bytes::Bytes::from(bytes.to_vec()));
        #[cfg(not(feature = "bytes"))]
        let r = T::decode(&mut &bytes[..]);
        part(&r)
    })
    .unwrap_or_else(|_| "panic".to_string())
}

macro_rules! family {
    ($fam:expr, $sel:expr, $seed:expr, $n:expr, $mode:expr; $($t:ty),* $(,)?) => {
        family!(@with decode_line, $fam, $sel, $seed, $n, $mode; $($t),*)
    };
    (@with $dl:ident, $fam:expr, $sel:expr, $seed:expr, $n:expr, $mode:expr; $($t:ty),* $(,)?) => {{
        let fam: &str = $fam;
        if $sel.fam.as_deref().map_or(true, |f| f == fam) {
            let mut h: u64 = 0xcbf2_9ce4_8422_2325;
            let mut items = 0u64;
            let mut types = 0u64;
            $(
                let tname = stringify!($t);
                if $sel.ty.as_deref().map_or(true, |t| t == tname) {
                    types += 1;
                    items_for::<$t>($seed, tname, $n, $sel.idx, $dl::<$t>, &mut |i, line| {
                        items += 1;
                        fnv(&mut h, line.as_bytes());
                        if $mode != "digest" {
                            println!("ITEM {} {} {} {}", fam, tname, i, line);
                        }
                    });
                }
            )*
            if $mode == "digest" {
                println!("FAMILY {} types={} items={} digest={:016x}", fam, types, items, h);
            }
        }
    }};
}

/// append_or_new histories (EncodeAppend exists in every configuration).
fn append_items(seed: u64, n: u64, only: Option<u64>, out: &mut dyn FnMut(u64, String)) {
    use parity_scale_codec::EncodeAppend;
    fn run<T: Encode + Clone + parity_scale_codec::EncodeLike>(r: &mut Rng, mk: fn(u64) -> T, deque: bool) -> String {
        let starts: [u64; 12] = [0, 1, 60, 62, 63, 64, 65, 16380, 16382, 16383, 16384, 16390];
        let start = *r.pick(&starts);
        let mut blob: Vec<u8> = if start == 0 && r.chance(1, 2) { Vec::new() } else { (0..start).map(mk).collect::<Vec<T>>().encode() };
        let mut count = start;
        let mut log = format!("start={}", start);
        for _ in 0..r.range(1, 4) {
            let b = match r.below(6) {
                0 => 0,
                1 => 1,
                2 => r.range(2, 9),
                3 => (64u64.saturating_sub(count)).max(1),
                4 => (16384u64.saturating_sub(count)).max(1).min(17000),
                _ => r.range(0, 70),
            };
            let items: Vec<T> = (count..count + b).map(mk).collect();
            let b0 = blob.clone();
            let res = std::panic::catch_unwind(std::panic::AssertUnwindSafe(|| if deque { <VecDeque<T> as EncodeAppend>::append_or_new(b0.clone(), items.clone()) } else { <Vec<T> as EncodeAppend>::append_or_new(b0.clone(), &items[..]) }));
            let res = match res {
                Ok(r) => r,
                Err(_) => {
                    log.push_str(&format!(" +{}=>panic", b));
                    break;
                },
            };
            match res {
                Ok(v) => {
                    blob = v;
                    count += b;
                    let mut h: u64 = 0xcbf2_9ce4_8422_2325;
                    fnv(&mut h, &blob);
                    log.push_str(&format!(" +{}=>len{}:{:016x}:{}", b, blob.len(), h, hex(&blob[..blob.len().min(6)])));
                },
                Err(_) => {
                    log.push_str(&format!(" +{}=>err", b));
                    break;
                },
            }
        }
        log
    }
    for i in 0..n {
        if let Some(o) = only {
            if o != i {
                continue;
            }
        }
        let mut r = Rng::for_case(seed, "append", i);
        let deque = r.chance(1, 2);
        let line = match r.below(4) {
            0 => format!("u8 {}", run::<u8>(&mut r, |x| x as u8, deque)),
            1 => format!("u32 {}", run::<u32>(&mut r, |x| (x as u32).wrapping_mul(2654435761), deque)),
            2 => format!("unit {}", run::<()>(&mut r, |_| (), deque)),
            _ => format!("string {}", run::<String>(&mut r, |x| "ab".repeat((x % 4) as usize), deque)),
        };
        out(i, format!("enc:{}", line.replace(' ', "_")));
    }
}

struct Sel {
    fam: Option<String>,
    ty: Option<String>,
    idx: Option<u64>,
}

fn main() {
    std::panic::set_hook(Box::new(|_| {}));
    let a: Vec<String> = std::env::args().collect();
    if a.len() < 4 {
        eprintln!("usage: cfgprobe <seed> <items-per-type> digest | list <family> | item <family> <type> <idx>");
        std::process::exit(2);
    }
    let seed: u64 = a[1].parse().unwrap();
    let n: u64 = a[2].parse().unwrap();
    let mode = a[3].as_str();
    let sel = Sel { fam: a.get(4).cloned(), ty: a.get(5).cloned(), idx: a.get(6).and_then(|s| s.parse().ok()) };
    family!("core", sel, seed, n, mode;
        u8, u16, u32, u64, u128, i8, i16, i32, i64, i128, bool, f32, f64, (),
        Compact<u8>, Compact<u16>, Compact<u32>, Compact<u64>, Compact<u128>,
        Option<u32>, Option<Option<bool>>, Result<u8, String>, (u8, u32, bool), (Compact<u64>, Vec<u16>),
        Vec<u8>, Vec<u16>, Vec<u32>, Vec<i64>, Vec<u128>, Vec<f32>, Vec<bool>, Vec<()>, Vec<String>, Vec<(u8, u32)>, Vec<Option<u16>>, Vec<Vec<u8>>,
        VecDeque<u32>, VecDeque<String>, LinkedList<u16>, BinaryHeap<u32>, BTreeMap<u32, String>, BTreeSet<u16>, BTreeMap<u8, Vec<u16>>,
        String, [u8; 4], [u16; 7], [u32; 5], [bool; 3], [String; 2], Box<u32>, Box<Vec<u8>>, Rc<String>, Arc<[u16; 4]>, Box<[u32; 6]>,
        core::time::Duration, core::ops::Range<u32>, core::num::NonZeroU16, parity_scale_codec::OptionBool,
        BTreeMap<PKey, u8>, BTreeSet<PKey>, Vec<PKey>, BinaryHeap<PKey>,
    );
    if sel.fam.as_deref().map_or(true, |f| f == "append") {
        let mut h: u64 = 0xcbf2_9ce4_8422_2325;
        let mut items = 0u64;
        append_items(seed, n * 4, sel.idx, &mut |i, line| {
            items += 1;
            fnv(&mut h, line.as_bytes());
            if mode != "digest" {
                println!("ITEM append history {} {}", i, line);
            }
        });
        if mode == "digest" {
            println!("FAMILY append types=4 items={} digest={:016x}", items, h);
        }
    }
    family!(@with bytebuf_line, "bytebuf", sel, seed, n, mode; ByteBuf, (u8, ByteBuf, u16), Vec<ByteBuf>, Option<ByteBuf>, (ByteBuf, ByteBuf));
    #[cfg(feature = "derive")]
    family!("derive", sel, seed, n, mode; derived::S1, derived::E1, derived::N1, Vec<derived::E1>, Option<Box<derived::S1>>, Box<derived::N1>, [derived::E1; 2]);
    #[cfg(feature = "bit-vec")]
    family!("bit-vec", sel, seed, n, mode;
        bitvec::vec::BitVec<u8, bitvec::order::Lsb0>, bitvec::vec::BitVec<u8, bitvec::order::Msb0>, bitvec::vec::BitVec<u16, bitvec::order::Lsb0>,
        bitvec::vec::BitVec<u32, bitvec::order::Msb0>, bitvec::vec::BitVec<u64, bitvec::order::Lsb0>);
    #[cfg(feature = "bytes")]
    family!("bytes", sel, seed, n, mode; bytes::Bytes, (u8, bytes::Bytes, u16), Vec<bytes::Bytes>);
    #[cfg(feature = "generic-array")]
    family!("generic-array", sel, seed, n, mode;
        generic_array::GenericArray<u8, generic_array::typenum::U3>, generic_array::GenericArray<u16, generic_array::typenum::U7>, generic_array::GenericArray<String, generic_array::typenum::U2>);
    // which codec configuration this binary was built with (informational)
    println!("CONFIG codec-std={} chain-error={} derive={} bit-vec={} bytes={} generic-array={} max-encoded-len={}",
        cfg!(feature = "codec-std"), cfg!(feature = "chain-error"), cfg!(feature = "derive"), cfg!(feature = "bit-vec"), cfg!(feature = "bytes"), cfg!(feature = "generic-array"), cfg!(feature = "max-encoded-len"));
}
